//! C15, thread tier: the REAL in-memory stores (no hooks, `send-sync-storage`) shared by real OS threads, executed
//! under Miri's seeded scheduler (`-Zmiri-many-seeds`, `-Zmiri-preemption-rate`). One Miri seed is one exactly
//! repeatable execution; Miri additionally reports data races and undefined behaviour inside tokio's lock.
//!
//! usage: idsim-miri <threads>

use identity_did::CoreDID;
use identity_storage::JwkMemStore;
use identity_storage::JwkStorage;
use identity_storage::KeyId;
use identity_storage::KeyIdMemstore;
use identity_storage::KeyIdStorage;
use identity_storage::MethodDigest;
use identity_verification::jose::jwk::Jwk;
use identity_verification::jose::jws::JwsAlgorithm;
use identity_verification::VerificationMethod;
use std::future::Future;
use std::sync::Arc;
use std::task::Context;
use std::task::Poll;
use std::task::Wake;
use std::task::Waker;
use std::thread;

struct ThreadWaker(thread::Thread);
impl Wake for ThreadWaker {
  fn wake(self: Arc<Self>) {
    self.0.unpark();
  }
}

fn block_on<T>(fut: impl Future<Output = T>) -> T {
  let waker = Waker::from(Arc::new(ThreadWaker(thread::current())));
  let mut cx = Context::from_waker(&waker);
  let mut fut = std::pin::pin!(fut);
  loop {
    match fut.as_mut().poll(&mut cx) {
      Poll::Ready(v) => return v,
      Poll::Pending => thread::park(),
    }
  }
}

fn digest(i: u8) -> MethodDigest {
  let x = ["11qYAYKxCrfVS_7TyWQHOg7hcvPapiMlrwIaaPcHURo", "O2onvM62pC1io6jQKm8Nc2UyFXcd4kOmOsBIoYtZ2ik"][i as usize % 2];
  let jwk: Jwk = serde_json::from_value(serde_json::json!({"kty":"OKP","crv":"Ed25519","alg":"EdDSA","x": x})).unwrap();
  let m = VerificationMethod::new_from_jwk(CoreDID::parse("did:sim:miri").unwrap(), jwk, Some(&format!("d{i}"))).unwrap();
  MethodDigest::new(&m).unwrap()
}

fn fail(msg: String) -> ! {
  println!("VIOLATION property=C15 invariant=C15.one_key_id_per_digest tier=miri-threads {msg}");
  std::process::exit(1);
}

fn main() {
  let n: usize = std::env::args().nth(1).and_then(|v| v.parse().ok()).unwrap_or(3);

  // ---- race: n threads insert the same digest with distinct key ids ----
  {
    let store = Arc::new(KeyIdMemstore::new());
    let d = digest(0);
    let handles: Vec<_> = (0..n)
      .map(|i| {
        let store = store.clone();
        let d = d.clone();
        thread::spawn(move || block_on(store.insert_key_id(d, KeyId::new(format!("key{i}")))).is_ok())
      })
      .collect();
    let results: Vec<bool> = handles.into_iter().map(|h| h.join().unwrap()).collect();
    let winners: Vec<usize> = results.iter().enumerate().filter(|(_, ok)| **ok).map(|(i, _)| i).collect();
    if winners.len() != 1 {
      fail(format!("{} of {n} racing insert_key_id calls succeeded", winners.len()));
    }
    let stored = block_on(store.get_key_id(&d)).map(|k| k.as_str().to_owned());
    if stored.as_deref().ok() != Some(format!("key{}", winners[0]).as_str()) {
      fail(format!("winner key{} but get_key_id returns {stored:?}", winners[0]));
    }
    if block_on(store.count()) != 1 {
      fail("more than one mapping after the race".to_owned());
    }
  }

  // ---- mixed: inserters, a deleter and readers on one digest ----
  {
    let store = Arc::new(KeyIdMemstore::new());
    let d = digest(1);
    let mut handles = Vec::new();
    for i in 0..n.min(4) {
      let store = store.clone();
      let d = d.clone();
      handles.push(thread::spawn(move || match i % 3 {
        0 => (0u8, block_on(store.insert_key_id(d, KeyId::new(format!("m{i}")))).is_ok(), String::new()),
        1 => (1u8, block_on(store.delete_key_id(&d)).is_ok(), String::new()),
        _ => {
          let r = block_on(store.get_key_id(&d));
          (2u8, r.is_ok(), r.map(|k| k.as_str().to_owned()).unwrap_or_default())
        }
      }));
    }
    let results: Vec<(u8, bool, String)> = handles.into_iter().map(|h| h.join().unwrap()).collect();
    let inserts = results.iter().filter(|r| r.0 == 0 && r.1).count() as i64;
    let deletes = results.iter().filter(|r| r.0 == 1 && r.1).count() as i64;
    let present = block_on(store.get_key_id(&d)).is_ok() as i64;
    if inserts - deletes != present || !(0..=1).contains(&(inserts - deletes)) {
      fail(format!("mixed script: {inserts} successful inserts, {deletes} successful deletes, present={present}"));
    }
    for r in results.iter().filter(|r| r.0 == 2 && r.1) {
      if !r.2.starts_with('m') {
        fail(format!("get_key_id returned {:?}, which nobody inserted", r.2));
      }
    }
  }

  // ---- key store: sign races with delete; exists afterwards ----
  {
    let store = Arc::new(JwkMemStore::new());
    let out = block_on(store.generate(JwkMemStore::ED25519_KEY_TYPE, JwsAlgorithm::EdDSA)).expect("generate");
    let (kid, jwk) = (out.key_id.clone(), out.jwk.clone());
    let s1 = store.clone();
    let (k1, j1) = (kid.clone(), jwk.clone());
    let signer = thread::spawn(move || block_on(s1.sign(&k1, b"payload", &j1)).is_ok());
    let s2 = store.clone();
    let k2 = kid.clone();
    let deleter = thread::spawn(move || block_on(s2.delete(&k2)).is_ok());
    let _signed = signer.join().unwrap();
    let deleted = deleter.join().unwrap();
    if !deleted {
      println!("VIOLATION property=C15 invariant=C15.key_store_linearizable tier=miri-threads delete of a present key failed");
      std::process::exit(1);
    }
    if block_on(store.exists(&kid)).unwrap_or(true) || block_on(store.sign(&kid, b"x", &jwk)).is_ok() || block_on(store.delete(&kid)).is_ok() {
      println!("VIOLATION property=C15 invariant=C15.key_store_linearizable tier=miri-threads a deleted key id still exists / signs / deletes");
      std::process::exit(1);
    }
  }
  println!("ok threads={n}");
}
