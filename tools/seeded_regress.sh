#!/usr/bin/env bash
# seeded_regress.sh [pattern] — re-evaluates every confirmed seeded change under /verif/seeded against the quick check of
# its own property, in the scratch worktree (never in /repo). Prints one line per change; exit 1 if a change that is
# expected to be caught is missed. r2-C04-B is the documented non-detection; r5-C04-A became behaviour-neutral when the
# defect it relied on was fixed (6af316e), r6-C12-A (the ENCODER writes several gzip members for very long lists) when
# the decoder learnt to read such lists (fb98e14).
set -u
cd "$(dirname "$0")/.."
PAT="${1:-}"
miss=0
for d in seeded/*/; do
  id=$(basename "$d")
  [ -n "$PAT" ] && [[ "$id" != *$PAT* ]] && continue
  [ -f "$d/patch.diff" ] || continue
  prop=$(python3 -c "import json;print(json.load(open('$d/meta.json'))['property'])")
  patch="$PWD/$d/patch.diff"
  # a patch whose file was later touched by a fix: commit in /repo is kept rebased next to the original
  for r in "$PWD/$d"/patch.rebased-*.diff; do [ -f "$r" ] && patch="$r"; done
  out=$(tools/seeded_eval_scratch.sh "$patch" "$prop" 2>&1 | grep -E "^\[$prop\]|patch does not apply|BUILD FAILED" | cut -c1-260)
  rc=$(echo "$out" | sed -E 's/.*exit=([0-9]+).*/\1/')
  status=CAUGHT
  if [ "$rc" != "1" ]; then
    if [ "$id" = "r2-C04-B" ]; then status="not-caught(documented)";
    elif [ "$id" = "r5-C04-A" ]; then status="neutral-since-fix-6af316e(documented)";
    elif [ "$id" = "r6-C12-A" ]; then status="neutral-since-fix-fb98e14(documented)";
    else status="MISSED(rc=$rc)"; miss=1; fi
  fi
  echo "$id $prop $status $(echo "$out" | sed -E 's/.*(invariant=[^ ]+ signature=[^ ]+).*/\1/' | cut -c1-150)"
done
exit $miss
