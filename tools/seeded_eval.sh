#!/usr/bin/env bash
# seeded_eval.sh <patch.diff> <PROPERTY> [more properties...]
# Applies a seeded change to /repo, runs the quick check(s), reverts. Never writes evidence. Prints one line per check.
set -u
PATCH="$1"; shift
cd /verif
if ! git -C /repo diff --quiet; then echo "refusing: /repo has uncommitted changes"; exit 2; fi
if ! git -C /repo apply "$PATCH"; then echo "patch does not apply"; exit 2; fi
for P in "$@"; do
  out=$(VERIF_NO_EVIDENCE=1 bin/check "$P" "${TIER:-quick}" 2>&1); rc=$?
  first=$(echo "$out" | grep -m1 '^VIOLATION' | cut -c1-420)
  echo "[$P] exit=$rc $(echo "$out" | grep -c '^VIOLATION') violation line(s): $first"
  echo "$out" | grep -E 'HARNESS-ERROR' | head -3
done
git -C /repo apply -R "$PATCH" || git -C /repo checkout -- .
git -C /repo status --short | head -5
rm -f /verif/replays/*.json
