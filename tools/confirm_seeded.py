#!/usr/bin/env python3
"""Confirms every seeded change in the scratch worktree /tmp/wt-confirm (never in /repo):
   demo passes without the change, fails with it, and the full existing test suite (362 tests) passes with it.
   Copies patch + demonstration + meta.json to /verif/seeded/<ID>-<variant>/."""
import json, os, shutil, subprocess, sys, re, time

WT = "/tmp/wt-confirm"
NEXTEST = ["cargo","nextest","run","--workspace","--no-fail-fast","--tool-config-file","pb:/w/lib/nextest.toml","--profile","pb","--test-threads","8","--offline"]
DEMOS = {
 "C01-A": "cargo test -p identity_jose --offline --test c01_alg_must_be_protected",
 "C01-B": "cargo test -p identity_jose --offline --test c01_single_bit_flips",
 "C02-A": "cargo test -p identity_storage --offline seeded_c02_a",
 "C02-B": "cargo test -p identity_storage --offline seeded_c02_b",
 "C03-A": "cargo test -p identity_storage --offline seeded_c03_a",
 "C03-B": "cargo test -p identity_storage --offline seeded_c03_b",
 "C04-A": "cargo test -p identity_document --offline --test seeded_a_remove_method_refs",
 "C04-B": "cargo test -p identity_document --offline --test seeded_b_foreign_did_query",
 "C06-A": "cargo test -p identity_credential --offline --test c06_demo_a",
 "C06-B": "cargo test -p identity_credential --offline --test c06_demo_b",
 "C08-A": "cargo test -p identity_jose --offline --test general_detached_multi_recipient",
 "C08-B": "cargo test -p identity_storage --offline kid_override",
 "C09-A": "cargo test -p identity_storage --offline --test c09_seeded_a",
 "C09-B": "cargo test -p identity_storage --offline --test c09_seeded_b",
 "C12-A": "cargo test -p identity_credential --offline --features status-list-2021 --test seeded_c12_a",
 "C12-B": "cargo test -p identity_credential --offline --features status-list-2021 --test seeded_c12_b",
 "C14-A": "cd seeded/A/demo && CARGO_TARGET_DIR=/tmp/wt-confirm/target-demo cargo test --offline",
 "C14-B": "cd seeded/B/demo && CARGO_TARGET_DIR=/tmp/wt-confirm/target-demo cargo test --offline",
 "C15-A": "cargo test -p identity_storage --offline --lib seeded_race_demo",
 "C15-B": "cargo test -p identity_storage --offline --lib seeded_sign_after_delete",
 "C16-A": "cargo test -p identity_storage --offline --lib -- c16_a",
 "C16-B": "cargo test -p identity_storage --offline --lib -- c16_b",
 "C20-A": "cd seeded/A/demo && CARGO_TARGET_DIR=/tmp/wt-confirm/target-demo cargo test --offline",
 "C20-B": "cd seeded/B/demo && CARGO_TARGET_DIR=/tmp/wt-confirm/target-demo cargo test --offline",
}

def sh(cmd, cwd=WT, timeout=3600):
    p = subprocess.run(cmd, cwd=cwd, shell=isinstance(cmd,str), capture_output=True, text=True, timeout=timeout)
    return p.returncode, (p.stdout + p.stderr)

def reset():
    sh("git checkout -q -- . && git clean -fdq -e target -e target-demo")

def round2_demos():
    """Rounds 2 and 3: demo command taken from the DEMO_CMD line of the agent's NOTES.md."""
    d = {}
    for rnd in range(2, 20):
        for pid in ["C01","C02","C03","C04","C06","C08","C09","C12","C14","C15","C16","C20"]:
            for var in "AB":
                notes = f"/tmp/wt{rnd}-{pid}/seeded/{var}/NOTES.md"
                if not os.path.exists(notes): continue
                m = re.search(r"DEMO_CMD:\s*`?([^`\n]+)`?", open(notes).read())
                if m: d[f"r{rnd}-{pid}-{var}"] = re.sub(r"CARGO_TARGET_DIR=\S+ ", "", m.group(1).strip())
    return d

def main():
    only = sys.argv[1:]
    all_demos = dict(DEMOS)
    all_demos.update(round2_demos())
    for key, demo_cmd in all_demos.items():
        round_arg = len(only) == 1 and re.fullmatch(r"round\d+", only[0]) is not None
        if only and key not in only and not (round_arg and key.startswith("r" + only[0][5:] + "-")): continue
        if re.match(r"r\d+-", key):
            rnd, pid, var = key.split("-")
            src = f"/tmp/wt{rnd[1:]}-{pid}/seeded/{var}"
        else:
            pid, var = key.split("-")
            src = f"/tmp/wt-{pid}/seeded/{var}"
        if not os.path.exists(src):
            continue
        out_dir = f"/verif/seeded/{key}"
        meta_path = f"{out_dir}/meta.json"
        if os.path.exists(meta_path) and (not only or round_arg):
            print(key, "already confirmed"); continue
        t0 = time.time()
        reset()
        has_demo_diff = os.path.exists(f"{src}/demo.diff")
        # place the demonstration
        if has_demo_diff:
            rc, o = sh(f"git apply {src}/demo.diff")
            assert rc == 0, (key, "demo.diff does not apply", o)
        else:
            os.makedirs(f"{WT}/seeded/{var}", exist_ok=True)
            shutil.copytree(f"{src}/demo", f"{WT}/seeded/{var}/demo", dirs_exist_ok=True)
        rc_without, o_without = sh(demo_cmd)
        rc, o = sh(f"git apply {src}/patch.diff")
        assert rc == 0, (key, "patch.diff does not apply", o)
        rc_with, o_with = sh(demo_cmd)
        # existing suite with the change only (demo removed when it lives inside the workspace)
        if has_demo_diff:
            sh(f"git apply -R {src}/demo.diff")
        rc_suite, o_suite = sh(NEXTEST)
        m = re.search(r"(\d+) tests run: (\d+) passed", o_suite)
        suite = {"exit": rc_suite, "tests_run": int(m.group(1)) if m else None, "passed": int(m.group(2)) if m else None}
        reset()
        ok = rc_without == 0 and rc_with != 0 and rc_suite == 0 and suite["passed"] is not None and suite["passed"] >= 362 and suite["passed"] == suite["tests_run"]  # a patch may add unit tests of its own
        os.makedirs(out_dir, exist_ok=True)
        shutil.copy(f"{src}/patch.diff", f"{out_dir}/patch.diff")
        shutil.copy(f"{src}/NOTES.md", f"{out_dir}/NOTES.md")
        if has_demo_diff:
            shutil.copy(f"{src}/demo.diff", f"{out_dir}/demo.diff")
        else:
            shutil.copytree(f"{src}/demo", f"{out_dir}/demo", dirs_exist_ok=True, ignore=shutil.ignore_patterns("target"))
        notes = open(f"{src}/NOTES.md").read()
        meta = {"id": key, "property": pid, "confirmed": ok,
                "demo_cmd": demo_cmd, "demo_exit_without_change": rc_without, "demo_exit_with_change": rc_with,
                "existing_suite_with_change": suite,
                "confirmed_in": "scratch worktree /tmp/wt-confirm (git worktree of /repo HEAD, removed afterwards)",
                "what_i_ran": ["git apply demo.diff (or copy demo crate); " + demo_cmd + " -> must pass",
                               "git apply patch.diff; " + demo_cmd + " -> must fail",
                               "patch only: " + " ".join(NEXTEST) + " -> 362 passed"],
                "needs_to_manifest": "see NOTES.md (written by the independent fault-seeding agent)",
                "seconds": int(time.time()-t0)}
        json.dump(meta, open(meta_path,"w"), indent=1)
        print(key, "confirmed" if ok else "NOT CONFIRMED", meta["demo_exit_without_change"], meta["demo_exit_with_change"], suite, f"{meta['seconds']}s", flush=True)
        if not ok:
            open(f"{out_dir}/confirm_failure.log","w").write("== demo without\n"+o_without[-3000:]+"\n== demo with\n"+o_with[-3000:]+"\n== suite\n"+o_suite[-3000:])

if __name__ == "__main__":
    main()
