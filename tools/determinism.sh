#!/usr/bin/env bash
# Determinism self-test: for every claimed property, N seeds are executed in several fresh processes at worker counts
# 1, 4 and 16; the (tape length, trace hash, schedule hash, #violations) lines must be identical.
# usage: tools/determinism.sh [runs-per-property] [processes]
set -u
cd "$(dirname "$0")/.."
RUNS="${1:-2000}"
PROCS="${2:-4}"
bin/check --build || exit 2
BIN=sim/target/release/idsim
OUT=.work/determinism
rm -rf "$OUT"; mkdir -p "$OUT"
fail=0
for P in C01 C02 C03 C04 C06 C08 C09 C12 C14 C15 C16 C20; do
  i=0
  for T in 1 4 16; do
    for k in $(seq 1 "$PROCS"); do
      i=$((i+1))
      VERIF_THREADS=$T "$BIN" selftest "$P" "$RUNS" > "$OUT/$P.$i.txt" 2>/dev/null &
    done
  done
  wait
  ref="$OUT/$P.1.txt"
  for f in "$OUT"/$P.*.txt; do
    if ! cmp -s "$ref" "$f"; then
      echo "NON-DETERMINISTIC: $P ($f differs from $ref)"; diff "$ref" "$f" | head -5; fail=1
    fi
  done
  echo "$P: $(wc -l < "$ref") runs x $i processes identical=$([ $fail = 0 ] && echo yes || echo NO) panics=$(grep -c PANIC "$ref")"
done
exit $fail
