#!/usr/bin/env bash
# seeded_eval_scratch.sh <patch.diff> <PROPERTY>...   — like seeded_eval.sh but against the scratch worktree /tmp/wt-confirm
# through a scratch copy of the simulator (/tmp/sim-eval/sim, path deps rewritten), so /repo is never touched.
set -u
PATCH="$1"; shift
WT=/tmp/wt-confirm
rsync -a --exclude target "${SIM_SRC:-/verif/sim}/" /tmp/sim-eval/sim/ && sed -i 's#/repo/#/tmp/wt-confirm/#g' /tmp/sim-eval/sim/Cargo.toml
cp /verif/known_findings.json /tmp/sim-eval/vdir/
git -C $WT reset -q --hard && git -C $WT clean -fdq -e target -e target-demo
# (patches made against an earlier commit of the same history: fall back to a 3-way merge)
if ! git -C $WT apply "$PATCH" 2>/dev/null && ! git -C $WT apply -3 "$PATCH" >/dev/null 2>&1; then echo "patch does not apply"; git -C $WT reset -q --hard; exit 2; fi
if ! (cd /tmp/sim-eval/sim && cargo build --release --offline >/tmp/sim-eval/build.log 2>&1); then echo "BUILD FAILED"; tail -5 /tmp/sim-eval/build.log; git -C $WT reset -q --hard; exit 2; fi
for P in "$@"; do
  out=$(VERIF_DIR=/tmp/sim-eval/vdir VERIF_NO_EVIDENCE=1 /tmp/sim-eval/sim/target/release/idsim check "$P" "${TIER:-quick}" 2>&1); rc=$?
  first=$(echo "$out" | grep -m1 '^VIOLATION' | cut -c1-420)
  echo "[$P] exit=$rc $(echo "$out" | grep -c '^VIOLATION') violation line(s): $first"
  echo "$out" | grep -E 'HARNESS-ERROR' | head -2 | cut -c1-300
done
git -C $WT reset -q --hard && git -C $WT clean -fdq -e target -e target-demo
rm -rf /tmp/sim-eval/vdir/replays
