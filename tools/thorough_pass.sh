#!/usr/bin/env bash
# thorough_pass.sh <PROPERTY>...   — runs the thorough check of each property, prints summary / VIOLATION / KNOWN-FINDING /
# HARNESS lines in short form. Meant for `vp run -- tools/thorough_pass.sh C06 C12 ...` (VERIF_SEED from the environment).
set -u
cd "$(dirname "${BASH_SOURCE[0]}")/.."
for P in "$@"; do
  echo "=== $P"
  bin/check "$P" thorough 2>&1 | grep -E '^\[|^VIOLATION|^KNOWN-FINDING|HARNESS|^NOTE' | cut -c1-260
done
echo "=== pass finished"
