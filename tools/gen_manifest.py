#!/usr/bin/env python3
"""Generates /verif/MANIFEST.json from the table below (single source, so the file is always schema-valid)."""
import json, subprocess, sys

NA = {
 "C05": "Panic-freedom of ~45 parsers over all byte strings is a pure input-space property (coverage-guided fuzzing territory); a simulator only feeds a handful of network-facing entry points with mutated valid messages, which cannot stand for 'every input'. No schedule, clock, fault or interleaving occurs in the statement.",
 "C07": "Credential/presentation <-> claims conversion is a pure function of one value; no schedule, clock, fault or second party can change its result (the 'returned credential is the one that was signed' clause is checked under C02/C03).",
 "C10": "DID / DID-URL syntax, canonical form and Eq/Ord/Hash agreement are pure string functions of one input; nothing for a scheduler, clock or fault injector to act on.",
 "C11": "JOSE header policy is a finite decision table over header contents of one token; the right tool enumerates the table, a seeded scheduler or fault injector adds nothing.",
 "C13": "Timestamp parsing/formatting/arithmetic are pure functions of their argument; the only clock-dependent function (now_utc) merely forwards a value the simulator itself would supply.",
 "C17": "IOTA DID normal form and equality are pure string/byte functions of one input.",
 "C18": "JWK public projection, thumbprint and kty/params coherence are pure functions of one JWK (the 'generated output is public-only' clause is checked under C15).",
 "C19": "OrderedSet / OneOrSet / OneOrMany are single-owner in-memory values; an operation history on them is an input with nothing to interleave, delay or fail.",
}

CHECKS = [
 dict(id="C20", engine="res", level="exploration", design="§4.3, §5 C20",
      technique="deterministic simulation: seeded single-threaded executor drives the real Resolver; handler futures park on simulator-owned gates so the tape decides every completion order, spurious wake and handler stall",
      text="Seeded search over handler tables, DID lists and completion orders of the concurrently polled handler futures inside the real resolve_multiple (FuturesUnordered + try_collect); oracle: dispatch by method, exactly one entry per distinct DID equal to single resolution for every completion order, failure if any fails, no lost wake-up / busy loop, did:jwk expansion. Sampling, not enumeration: evidence reports the completion permutations reached (all 24 orders of 4 and all 120 of 5 are required reach probes).",
      note="Handlers are stubs (that is the seam). The HashSet iteration order inside resolve_multiple is not controlled; the oracle and the trace are built to be independent of it (checked by the determinism self-test across processes)."),
 dict(id="C15", engine="ks", level="exploration", design="§4.2, §5 C15",
      technique="deterministic simulation: 2-16 client tasks on one shared JwkMemStore/KeyIdMemstore under a seeded executor (tape picks the next task and every hook yield), per-object linearizability check of the recorded history against a sequential map model plus direct cryptographic clauses",
      text="Seeded search over client scripts and interleavings at the lock-acquisition and critical-section hook points of the real in-memory stores (real tokio RwLock); oracle: linearizability per key id / per method digest against the sequential contract, exactly one winner among racing insert_key_id calls, signatures verify under the stored key and under no other stored key, generate output public-only with kid = RFC 7638 thumbprint and requested alg, fresh key ids, invalid inserts refused, no deadlock/lost wake-up.",
      note="Interleavings are explored at await points (hooks + lock waits) on a single-threaded executor; preemption between non-awaiting statements is covered only by the thorough tier's Miri runs (real OS threads on the un-hooked stores under Miri's seeded scheduler, 4 thread counts x 16 seeds). OS randomness is replaced through the cfg hooks. StrongholdStorage is exercised sequentially only (2 000 seeded histories on the real store in the thorough tier); its internals are outside the simulator."),
 dict(id="C09", engine="stor", level="fault_enumeration", design="§4.1, §5 C09, §11.5",
      technique="deterministic simulation with fault injection at the JwkStorage/KeyIdStorage seams: per storage-backed call a tape-drawn fault mask over storage-call occurrences (clean failures, and dirty failures - effect taken, error reported - of insert_key_id / delete_key_id / delete), seeded yields deciding the completion order of the joined deletes, optional concurrent bystander; before/after snapshots of document and both stores against a reference model",
      text="Seeded search over document histories x fault masks (every subset of the <=4 storage calls of generate_method / purge_method failing cleanly) x join orders x document type x target kind (embedded / general-purpose with 0,1,>=2 references / dangling-only / absent); after every call: Ok => method resolves in scope, key id recorded, key exists, signing verifies, nothing else changed; Err => document (order-insensitive) and both stores equal the pre-state; UndoOperationFailed licenses exactly the named stray. The realised (op, doc type, target, refs, call/fault vector, join order, outcome) cells are counted in the evidence.",
      note="Main engine: failures injected are clean failures (error returned, store not altered), 7 key-id and 8 key-store error kinds. Thorough tier also: generate_method / purge_method over the REAL StrongholdStorage (sim-stronghold c09, 3000 histories) with the write of the snapshot file failing at tape-chosen occurrences through the guarded hook identity_stronghold::verif_hooks - an error AFTER the in-memory effect, what a full disk does to that store; judged through exists / get_key_id / signing / number of key-id entries (a key created in memory whose id no caller learnt is not observable and not judged). Allocation failure is not simulated. After an error the document must equal its pre-state exactly (order included); after success the set of entries is compared."),
 dict(id="C04", engine="stor", level="exploration", design="§4.1, §5 C04",
      technique="deterministic simulation: seeded document mutation histories in which storage-backed generate/purge run under injected storage faults and seeded schedules, checked step by step against a set-of-entries reference model (state, outcome, invariants, JSON/state-metadata round trip, every resolution query)",
      text="Seeded histories of <=12 operations over 2-5 fragments x 2 DIDs from empty, built and deserialised start documents (incl. dangling own/foreign references, foreign-DID embedded methods, shared fragments); after every step: id-uniqueness invariants recomputed from the entries, refused operations leave the document unchanged, to_json/from_json (and pack/unpack for IotaDocument) round trip, resolve_method / resolve_service / methods for every id and fragment with and without every scope agree with the model. Only generate_method/purge_method can meet faults; the plain mutators run as fault-free model conformance.",
      note="Sampling, not bounded-exhaustive enumeration. Ambiguous fragment-only queries (same fragment under several DIDs) admit any candidate. Order inside collections is not compared."),
 dict(id="C14", engine="world", level="exploration", design="§4.4, §5 C14",
      technique="deterministic simulation: IOTA document lifecycle against a simulated ledger that stores the packed bytes and serves them intact, stale, torn, with trailing garbage or header bit flips; expected documents recomputed by a harness-side self-reference rewrite",
      text="Seeded document lifecycles (placeholder DID rebased at first publication, mutations between publications, self/foreign methods in every scope, references, services, controllers, alsoKnownAs, custom properties, metadata); every version is unpacked for its own and for a different DID and compared with the harness model (exactly id, controllers, method ids/controllers, references and service ids rewritten); torn reads, header flips and enlarging length flips must be rejected, trailing garbage ignored, >65535-byte documents fail to pack and 65533..65535-byte ones pack.",
      note="Byte strings offered to unpack are faults applied to really packed documents; arbitrary byte strings are not explored. Body flips and shrinking length flips are outside the statement and only counted."),
 dict(id="C06", engine="world", level="exploration", design="§4.4, §5 C06",
      technique="deterministic simulation: issuer revocation history (revoke/unrevoke batches, publications, simulated time) with verifiers resolving possibly stale ledger versions and validating credentials; BTreeSet<u32> model per service per version",
      text="Seeded histories of revoke/unrevoke batches (sequential, clustered, random, multi-container indices, sizes up to 10^3 quick / 10^5 thorough) on 1-2 services of IOTA and did:sim documents; after every update the issuer's own document must decode to the model set and change exactly the requested indices; a verifier's resolved (possibly stale) version must decode to that version's model; credential validation must report Revoked exactly when the index is a member of the version used; legacy double-encoded endpoints must still decode.",
      note="Legacy endpoints are produced by re-encoding the library's own current endpoint string the way pre-#1291 publishers did. Membership is compared on all touched indices, neighbours (+-1, +-65536), samples of members and random indices, and by cardinality. One run in eight also issues a credential with the service's status entry as a JSON Proof Token (fresh BBS+ method, shipped JwkMemStore) and validates it with JptCredentialValidator under StatusCheck::Strict (JPT twin)."),
 dict(id="C12", engine="world", level="exploration", design="§4.4, §5 C12",
      technique="deterministic simulation: status-list host with a write history and served versions over simulated time, verifiers checking credentials against possibly stale versions; bit-set model per list per version",
      text="Seeded write histories (set/clear through set_credential_status, update() and the raw list; sequentially allocated adjacent indices, out-of-range indices, both purposes, minimum / non-multiple-of-8 / larger sizes); after every write the touched byte, its neighbour bytes and samples must read back as the model says, refused writes change nothing, out-of-range access is an error (never a panic), the served JSON and the encoded list round-trip; revocation lists are monotone over the served history and the API refuses the clear; check_status_with_status_list_2021 against a fetched (possibly stale, possibly mismatching) version reports Revoked/Suspended/Ok/InvalidStatus exactly as the model predicts in all three status-check modes.",
      note="The exhaustive (byte value, offset, value) table of the quantifier is enumeration, not simulation; the run reaches the byte patterns that allocation histories produce."),
 dict(id="C02", engine="world", level="exploration", design="§4.4, §5 C02, App. A.1",
      technique="deterministic simulation: issuers, holders, an adversary and a verifier with per-party skewed clocks over simulated time; credentials travel through a Byzantine network and are validated against possibly stale ledger versions under options drawn per call; a reference validator over recorded ground truth (signing events at the JwkStorage::sign seam, published versions, revocation model, clock value) recomputes every conjunct",
      text="Seeded search over issuance histories (optional fields, status kinds, dates from the issuer clock), key rotation under the same or a new fragment, scope changes, revocation, delayed publication and stale resolution, network bit flips / truncation and adversary moves (re-sign with own key under the victim's or own kid, kid swap, splice, alg change), and validation options (nonce, scope, method-id override, explicit or clock-default bounds incl. the boundary second, three status modes, three subject-holder modes, fail-fast vs all errors). Oracle: accepted => every one of the 13 conjuncts true for the inputs actually used; a false conjunct => Err with the identifying variant (every false chained unit with AllErrors); on success the returned credential and custom claims are those signed. Evidence lists the distinct truth vectors reached.",
      note="Soundness, error identification and fidelity are judged; completeness is not (the statement says 'accepted only if'). For bit-flipped or truncated tokens any pre-signature/signature error variant is admitted. Only Ed25519 keys (shipped JwkMemStore). Thorough tier also: a feature twin (sim-nofeat: identity_credential built with credential+validator but WITHOUT revocation-bitmap, 20000 seeded runs) in which StatusCheck::Strict has to refuse every credentialStatus."),
 dict(id="C03", engine="world", level="exploration", design="§4.4, §5 C03, App. A.2",
      technique="deterministic simulation: same multi-party world as C02 on the presentation flow (holder clock for exp/nbf, challenge nonces, kid as fragment or full id, foreign-DID methods listed in the holder document, holder key rotation, stale resolution, Byzantine network); reference validator over recorded ground truth",
      text="Seeded search over presentation histories (kid as full id / '#fragment' / bare fragment, exp/nbf relative to the holder clock, audience, custom claims, hand-crafted claims with disagreeing duplicated values / out-of-range dates / non-DID issuer), holder key rotation and relationship changes, replay to other verifiers / nonces, delivery delay against short expiry, verifier clock stepped onto the boundary second, adversary re-signing and kid swaps, wrong holder document. Oracle: accepted => signature by a key of a method of the supplied holder-document version within scope, nonce equal, iss a DID equal to the document id, date bounds hold, duplicated values agree; otherwise Err with the identifying variant; on success presentation, audience, dates and custom claims equal those signed.",
      note="Soundness, error identification and fidelity are judged; completeness is not. For bit-flipped or truncated tokens PresentationJwsError or PresentationStructure is admitted."),
 dict(id="C16", engine="world", level="exploration", design="§4.4, §5 C16, App. A.3",
      technique="deterministic simulation: issuer, holders, adversary and verifier with skewed clocks; SD-JWT presentations (concealed claims, disclosures, KB-JWT) cross a network with bit flips and Byzantine disclosure / KB-JWT manipulation; reference validator over recorded signing events, own SHA-256 digests of disclosures and of the presented string, and the clock value",
      text="Seeded search over concealed-claim subsets (leaf, array element, nested object with concealed child, decoys, _sd_alg), disclosed subsets, KB-JWTs (typ, sd_hash, nonce, aud, iat from the holder clock), holder key rotation with stale resolution, adversary moves (drop / duplicate / reorder / forge disclosure, KB-JWT by another key under the holder's kid, by another holder, wrong typ, stale KB-JWT, stripped KB-JWT) and bit flips anywhere in the ~-separated string, with KB options (nonce, aud, earliest/latest iat bounds or clock default, scope) drawn per call and the verifier clock stepped around iat. Oracle: validate_credential Ok => issuer signature valid under kid/scope/nonce rules, every supplied disclosure bound (transitively) to a digest in the signed claims and distinct, dates hold, and the returned credential equals the issuer's credential restricted to the disclosed claims; validate_key_binding_jwt Ok => typ, holder-document key, sd_hash over the string as received, nonce, aud and iat window all hold; every failure is an Err of the identifying variant, never Ok and never a panic.",
      note="Soundness and error identification judged, completeness observed only. The dependency's typ constant (KeyBindingJwtClaims::KB_JWT_HEADER_TYP, which carries a leading space in sd-jwt-payload 0.2.1) is used as 'kb+jwt'. For bit-flipped presentations any error variant is admitted."),
 dict(id="C01", engine="world", level="exploration", design="§4.4, §5 C01",
      technique="deterministic simulation: notices signed by Ed25519 (shipped storage) and ES256/ES256K (KMS stub) signers in all three serialisations cross a network with seeded bit flips, truncation and Byzantine rewrites; every verification the library requests goes through a recording verifier around the real verifiers and is compared with the bytes as received and with the log of honest signing events",
      text="Seeded search over serialisation x attached/detached x b64 x 1-3 co-signers (arrival order chosen by the tape) x payload kinds, delivered intact or with one bit flipped in the protected, payload or signature segment, truncated, spliced, alg moved to the unprotected header, embedded plus detached payload, wrong detached payload or stripped signature. Invariants per verification request: signing input == ASCII(protected as received) '.' payload as received, alg == alg of the received protected header; per token reported verified: a verifier call succeeded, an honest signing event exists for exactly those bytes, claims == signed payload (decoded unless b64=false); every delivered token that differs from the signed one in protected header, payload or signature is rejected.",
      note="Only inputs an honest producer, a network fault or a listed adversary move generates are explored (not arbitrary malformed JSON). ES256/ES256K signing is a harness stub (p256/k256 crates); the three verifiers are real code. A decoder panic is counted as an observation (the statement is silent on it)."),
 dict(id="C08", engine="world", level="exploration", design="§4.4, §5 C08",
      technique="deterministic simulation with fault injection at the storage seam: tokens produced by the three encoders and by create_jws (tape-drawn JwsSignatureOptions, injected get_key_id / sign failures and retry) are delivered unmodified and decoded/verified by the library's own decoder against the producing document and key; separation checks under other method / nonce / scope",
      text="Seeded search over encoders x header combinations (protected/unprotected, b64, crit, typ, nonce, custom parameters) x attached/detached x payload kinds (binary, UTF-8, dots, quotes, backslashes, control characters) x 1-3 recipients in schedule-dependent order, and over create_jws option combinations (kid override, attach_jwk, b64, typ, cty, url, nonce, custom parameters, detached). I8.1 every produced token decodes to the same payload, headers and signing input and verifies; I8.2 an injected storage failure during signing yields an error and no token and the retry succeeds; I8.3 a create_jws token verifies against its own document but not under another method's key, another nonce or an excluding scope.",
      note="Header combinations are sampled, not enumerated; empty payloads are excluded as in the property. For un-encoded attached compact payloads only the character set the encoder accepts is generated."),
]

def main():
    commits = subprocess.run(["git","-C","/repo","log","--format=%H %s","--grep=^verif hooks","--grep=^verification hook"],capture_output=True,text=True).stdout.strip().splitlines()
    m = {
      "version": 1,
      "setup_cmd": "bin/check --build",
      "hooks": {
        "guard": "--cfg identity_rs_verif (rustc cfg flag, set in /verif/sim/.cargo/config.toml and /verif/sim-stronghold/.cargo/config.toml build.rustflags; hooks in identity_storage::verif_hooks and identity_stronghold::verif_hooks)",
        "enable": "cd /verif/sim && cargo build --release --offline   # .cargo/config.toml adds RUSTFLAGS --cfg identity_rs_verif; path dependencies on /repo/* so the current working tree is rebuilt",
        "baseline_off_cmd": "cd /repo && (cargo nextest run --workspace --no-fail-fast --tool-config-file pb:/w/lib/nextest.toml --profile pb --test-threads 8 --offline || cargo test --workspace --no-fail-fast --offline)",
        "source_commits": [c.split()[0] for c in commits],
        "add_only": True,
      },
      "engines": [
        {"name":"res","path":"sim/src/engines/res.rs","serves_properties":["C20"],"kind_free_text":"deterministic simulation of the real Resolver under a seeded executor with gated handler futures"},
      ],
      "checks": [],
      "notes": "All checks: bin/check <ID> <quick|thorough>; replay: bin/check --replay <file>. Exit 0 held, 1 VIOLATION, 2 harness error. VERIF_SEED seeds the batch (default fixed 0x1D5EED). Genuine defects that are recorded rather than repaired are listed in known_findings.json (findings); the checks of C02, C03, C04, C14, C16 and C20 print one KNOWN-FINDING line each for them and exit 0 (12 findings: C02 1, C03 1, C04 3, C14 1, C15 1 (Stronghold tier, thorough), C16 4, C20 1 - one of the C16 lines comes from a child-process crash probe, DESIGN 11.1); the 'fixed' list of that file records the 54 fix: commits in /repo and suppresses nothing. C09 thorough also runs generate_method / purge_method over the real StrongholdStorage with failing snapshot writes (sim-stronghold c09), C15 thorough the Stronghold sequential tier and the Miri thread tier. The simulator builds identity_storage with the jpt-bbs-plus feature (BBS+ keys in the shipped store). See DESIGN.md (7.1 findings, 11 corrections, 12 seeded-change campaign: 176 confirmed changes (173 caught by the quick check of their property, 3 documented) kept under seeded/, sub-agents' reports of genuine defects under seeded/genuine/, tools/seeded_regress.sh re-evaluates them in a scratch worktree).",
      "not_applicable": [],
    }
    engines = {}
    for c in CHECKS:
        m["checks"].append({
          "property_id": c["id"],
          "quick_cmd": f"bin/check {c['id']} quick",
          "thorough_cmd": f"bin/check {c['id']} thorough",
          "evidence_file": f"/verif/evidence/{c['id']}.json",
          "replay_cmd_template": "bin/check --replay {path}",
          "engine": c["engine"],
          "level_claimed": {"category": c["level"], "text": c["text"], "design_ref": c["design"]},
          "level_note": c["note"],
          "technique": c["technique"],
        })
        engines.setdefault(c["engine"], []).append(c["id"])
    ENG = {
      "res": ("sim/src/engines/res.rs", "deterministic simulation of the real Resolver under a seeded executor with gated handler futures"),
      "ks": ("sim/src/engines/ks.rs", "deterministic simulation of concurrent clients on the shared in-memory key stores (real tokio RwLock, hook yield points) + linearizability check"),
      "stor": ("sim/src/engines/stor.rs", "storage-fault / document-history simulator around JwkDocumentExt with fault-injecting storage wrappers and reference models"),
      "world": ("sim/src/engines/world/", "multi-party credential ecosystem (issuers, holders, verifiers, ledger, status host, Byzantine network) over simulated time"),
    }
    m["engines"] = [{"name":k,"path":ENG[k][0],"serves_properties":sorted(v),"kind_free_text":ENG[k][1]} for k,v in engines.items()]
    claimed = {c["id"] for c in CHECKS}
    pending = []
    for line in open("/verif/properties.jsonl"):
        pid = json.loads(line)["id"]
        if pid in claimed: continue
        if pid in NA:
            m["not_applicable"].append({"property_id": pid, "reason": NA[pid]})
        else:
            pending.append(pid)
            m["not_applicable"].append({"property_id": pid, "reason": "not claimed yet: the simulation engine for this property (see DESIGN.md §5) is not built/registered at this commit; no verdict is given for it."})
    json.dump(m, open("/verif/MANIFEST.json","w"), indent=1)
    print("claimed", sorted(claimed), "pending", pending)

if __name__ == "__main__":
    main()
