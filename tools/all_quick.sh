#!/usr/bin/env bash
# all_quick.sh — runs the quick check of every claimed property from /verif against /repo (evidence is rewritten),
# prints one summary line per property and the KNOWN-FINDING / VIOLATION lines in short form.
set -u
cd "$(dirname "${BASH_SOURCE[0]}")/.."
rc=0
for P in C01 C02 C03 C04 C06 C08 C09 C12 C14 C15 C16 C20; do
  out=$(bin/check "$P" quick 2>&1); code=$?
  echo "$out" | grep -E '^\[|^VIOLATION|^KNOWN-FINDING|HARNESS' | cut -c1-170
  [ $code -ne 0 ] && rc=$code
done
exit $rc
