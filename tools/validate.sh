#!/usr/bin/env bash
# validate.sh — regenerates MANIFEST.json and validates it and every evidence file against the schemas.
set -u
cd "$(dirname "${BASH_SOURCE[0]}")/.."
python3 tools/gen_manifest.py >/dev/null || { echo "gen_manifest failed"; exit 2; }
python3-vt - <<'EOF'
import json, glob, jsonschema, sys
ms = json.load(open('/root/.vp/MANIFEST.schema.json'))
es = json.load(open('/root/.vp/EVIDENCE.schema.json'))
jsonschema.validate(json.load(open('MANIFEST.json')), ms)
n = 0
for f in sorted(glob.glob('evidence/*.json')):
    jsonschema.validate(json.load(open(f)), es)
    n += 1
print(f"manifest ok, {n} evidence files ok")
EOF
