//! Feature twin of C02 (thorough tier): `identity_credential` built with `validator` but WITHOUT `revocation-bitmap`.
//!
//! "... and, unless status checking is relaxed, its revocation-bitmap index is not set in the issuer's bitmap service.
//! If any one condition is false an error identifying it is returned." In a build that cannot read any status, the
//! strict mode ("validate the status if supported, reject any unsupported credentialStatus types") has to refuse every
//! credential that carries a `credentialStatus`; the relaxed modes and credentials without status are accepted.
//!
//! Seeded like the simulator (tape from ../sim): credentials signed by a harness Ed25519 key, status kinds and modes
//! drawn per run. `idsim-nofeat <runs>` / `idsim-nofeat replay <file>`.

#[path = "../../sim/src/core/tape.rs"]
#[allow(dead_code)]
mod tape;

use crypto::signatures::ed25519::SecretKey;
use identity_core::common::Object;
use identity_core::common::Timestamp;
use identity_core::convert::FromJson;
use identity_credential::credential::Jwt;
use identity_credential::validator::FailFast;
use identity_credential::validator::JwtCredentialValidationOptions;
use identity_credential::validator::JwtCredentialValidator;
use identity_credential::validator::StatusCheck;
use identity_document::document::CoreDocument;
use identity_eddsa_verifier::EdDSAJwsVerifier;
use identity_verification::jws::CharSet;
use identity_verification::jws::CompactJwsEncoder;
use identity_verification::jws::CompactJwsEncodingOptions;
use identity_verification::jws::JwsAlgorithm;
use identity_verification::jws::JwsHeader;
use identity_verification::jwu;
use tape::Tape;

const ISSUER: &str = "did:example:issuer";

fn issuer_document(secret_key: &SecretKey) -> CoreDocument {
  let x: String = jwu::encode_b64(secret_key.public_key().as_ref());
  // the bitmap of the service has the indices 0, 5, 6 and 8 set
  CoreDocument::from_json(&format!(
    r##"{{"id":"{ISSUER}","verificationMethod":[{{"id":"{ISSUER}#key-1","controller":"{ISSUER}","type":"JsonWebKey",
      "publicKeyJwk":{{"kty":"OKP","crv":"Ed25519","alg":"EdDSA","x":"{x}"}}}}],
      "service":[{{"id":"{ISSUER}#revocation","type":"RevocationBitmap2022",
      "serviceEndpoint":"data:application/octet-stream;base64,eJyzMmBgYGQAAWYGATDNysDGwMEAAAscAJI"}}]}}"##
  ))
  .expect("issuer document")
}

fn credential_jwt(secret_key: &SecretKey, status: Option<&str>, n: usize) -> Jwt {
  let status = status.map(|s| format!(r#","credentialStatus":{s}"#)).unwrap_or_default();
  let claims: String = format!(
    r#"{{"iss":"{ISSUER}","sub":"did:example:subject","nbf":1500000000,"vc":{{"@context":"https://www.w3.org/2018/credentials/v1","type":["VerifiableCredential"],"credentialSubject":{{"degree":"BSc","n":{n}}}{status}}}}}"#
  );
  let mut header: JwsHeader = JwsHeader::new();
  header.set_alg(JwsAlgorithm::EdDSA);
  header.set_kid(format!("{ISSUER}#key-1"));
  let encoder: CompactJwsEncoder<'_> = CompactJwsEncoder::new_with_options(
    claims.as_bytes(),
    &header,
    CompactJwsEncodingOptions::NonDetached {
      charset_requirements: CharSet::Default,
    },
  )
  .expect("encoder");
  let signature: [u8; 64] = secret_key.sign(encoder.signing_input()).to_bytes();
  Jwt::new(encoder.into_jws(&signature))
}

/// One run: (trace lines, violations as (invariant, signature, message)).
fn run(t: &mut Tape) -> (Vec<String>, Vec<(String, String, String)>) {
  let mut seed = [0u8; 32];
  for b in seed.iter_mut() {
    *b = t.byte();
  }
  let sk = SecretKey::from_bytes(&seed);
  let issuer = issuer_document(&sk);
  let validator = JwtCredentialValidator::with_signature_verifier(EdDSAJwsVerifier::default());
  let mut trace = Vec::new();
  let mut violations = Vec::new();
  for step in 0..3 + t.choose(4) {
    let (kind, status): (&str, Option<String>) = match t.choose(5) {
      0 => ("none", None),
      1 => (
        "bitmap-index-set",
        Some(format!(r##"{{"id":"{ISSUER}?index=5#revocation","type":"RevocationBitmap2022","revocationBitmapIndex":"5"}}"##)),
      ),
      2 => (
        "bitmap-index-clear",
        Some(format!(r##"{{"id":"{ISSUER}?index=7#revocation","type":"RevocationBitmap2022","revocationBitmapIndex":"7"}}"##)),
      ),
      3 => ("unknown-type", Some(r#"{"id":"https://example.com/status/3","type":"SomeFutureStatus2031"}"#.to_owned())),
      _ => (
        "status-list-2021",
        Some(r#"{"id":"https://example.com/lists/1#94567","type":"StatusList2021Entry","statusPurpose":"revocation","statusListIndex":"94567","statusListCredential":"https://example.com/lists/1"}"#.to_owned()),
      ),
    };
    let (mode_name, mode) = [("Strict", StatusCheck::Strict), ("SkipUnsupported", StatusCheck::SkipUnsupported), ("SkipAll", StatusCheck::SkipAll)][t.choose(3)];
    let default_options = t.chance(1, 4) && mode_name == "Strict";
    let jwt = credential_jwt(&sk, status.as_deref(), step);
    let mut options = JwtCredentialValidationOptions::default().latest_issuance_date(Timestamp::from_unix(1_600_000_000).unwrap());
    if !default_options {
      options = options.status_check(mode);
    }
    let r = validator.validate::<_, Object>(&jwt, &issuer, &options, FailFast::FirstError);
    trace.push(format!(
      "step {step}: status {kind}, mode {mode_name}{} -> {}",
      if default_options { " (the default)" } else { "" },
      if r.is_ok() { "accepted" } else { "refused" }
    ));
    let must_refuse = status.is_some() && mode_name == "Strict";
    if must_refuse && r.is_ok() {
      let msg = format!("a build without the revocation-bitmap feature accepted a credential whose credentialStatus is {kind} under StatusCheck::Strict");
      trace.push(format!("VIOLATION C02.accept_only_if_all_conditions: {msg}"));
      violations.push(("C02.accept_only_if_all_conditions".to_owned(), format!("no-revocation-feature/strict-accepts/{kind}"), msg));
    }
    if !must_refuse && r.is_err() {
      let msg = format!("a credential with status {kind} was refused under {mode_name}: {:?}", r.err().map(|e| e.to_string()));
      trace.push(format!("VIOLATION C02.all_conditions_true_accepted: {msg}"));
      violations.push(("C02.all_conditions_true_accepted".to_owned(), format!("no-revocation-feature/refused/{kind}/{mode_name}"), msg));
    }
  }
  (trace, violations)
}

fn main() {
  let args: Vec<String> = std::env::args().collect();
  let verif = std::env::var("VERIF_DIR").unwrap_or_else(|_| "/verif".to_owned());
  if args.get(1).map(String::as_str) == Some("replay") {
    let v: serde_json::Value = serde_json::from_str(&std::fs::read_to_string(&args[2]).expect("replay file")).expect("json");
    let tape: Vec<u32> = serde_json::from_value(v["tape"].clone()).unwrap_or_default();
    let mut t = Tape::replay(tape);
    let (trace, violations) = run(&mut t);
    for l in &trace {
      println!("{l}");
    }
    let inv = v["invariant"].as_str().unwrap_or("");
    if violations.iter().any(|x| x.0 == inv) {
      println!("VIOLATION property=C02 replay={}", args[2]);
      std::process::exit(1);
    }
    eprintln!("replay did not reproduce {inv}");
    std::process::exit(2);
  }
  let known: Vec<serde_json::Value> = std::fs::read_to_string(format!("{verif}/known_findings.json"))
    .ok()
    .and_then(|s| serde_json::from_str::<serde_json::Value>(&s).ok())
    .and_then(|v| v["findings"].as_array().cloned())
    .unwrap_or_default();
  let runs: u64 = args.get(1).and_then(|v| v.parse().ok()).unwrap_or(2000);
  let seed: u64 = std::env::var("VERIF_SEED").ok().and_then(|v| v.parse().ok()).unwrap_or(0x1D5EED);
  let start = std::time::Instant::now();
  let mut exit = 0;
  let mut reported: Vec<(String, String)> = Vec::new();
  let mut known_lines = 0;
  let mut sample: Vec<String> = Vec::new();
  let mut validations = 0usize;
  for idx in 0..runs {
    let mut t = Tape::record(tape::mix(seed ^ 0xC02F, idx));
    let (trace, violations) = run(&mut t);
    validations += trace.iter().filter(|l| l.starts_with("step")).count();
    if idx == 0 {
      sample = trace.clone();
    }
    for (inv, sig, msg) in &violations {
      if reported.contains(&(inv.clone(), sig.clone())) {
        continue;
      }
      reported.push((inv.clone(), sig.clone()));
      if let Some(k) = known.iter().find(|e| e["property"] == "C02" && e["invariant"] == inv.as_str() && e["signature"] == sig.as_str()) {
        println!("KNOWN-FINDING: property=C02 invariant={inv} signature={sig} first_run={idx} {}", k["what_fails"].as_str().unwrap_or(""));
        known_lines += 1;
        continue;
      }
      let path = format!("{verif}/replays/C02-nofeat-{seed}-{idx}.json");
      let _ = std::fs::create_dir_all(format!("{verif}/replays"));
      let _ = std::fs::write(
        &path,
        serde_json::to_string_pretty(&serde_json::json!({"format":1,"engine":"feature-twin","property":"C02","invariant":inv,"signature":sig,
          "message":msg,"seed":seed,"run":idx,"tape":t.rec,"trace":trace}))
        .unwrap(),
      );
      println!("VIOLATION property=C02 replay={path} invariant={inv} signature={sig} message={msg}");
      exit = 1;
    }
  }
  let frag = serde_json::json!({"tier":"feature_twin_without_revocation_bitmap","runs":runs,"validations":validations,"violation_groups":reported.len(),
    "known_findings_printed":known_lines,"wall_s":start.elapsed().as_secs_f64(),"sample_history":sample,
    "note":"identity_credential built with features credential+validator only; real JwtCredentialValidator, compact encoder and EdDSA verifier; tokens signed by a harness key"});
  let _ = std::fs::create_dir_all(format!("{verif}/.work"));
  let _ = std::fs::write(format!("{verif}/.work/nofeat_tier.json"), serde_json::to_string_pretty(&frag).unwrap());
  eprintln!("[nofeat C02] runs={runs} validations={validations} violation_groups={} exit={exit}", reported.len());
  std::process::exit(exit);
}
