//! Storage-backed method generation / purge over the REAL `StrongholdStorage` while the write of the Stronghold
//! snapshot file fails at tape-chosen occurrences (thorough tier of C09).
//!
//! The fault seam is the hook `identity_stronghold::verif_hooks` (compiled with `--cfg identity_rs_verif` only): the
//! i-th snapshot write of an operation fails exactly where a full disk, a read-only file system or a lost password
//! would make it fail - after the store has applied the change in memory. Everything else is real: Stronghold client,
//! vault, store, snapshot file (work factor 0) and the library's `JwkDocumentExt`.
//!
//! Oracle (the statement of C09): an operation completes - method resolves, key id recorded, signing works; after a
//! purge all three are gone - or returns an error with document and both stores observably unchanged; the one exception
//! is an error that explicitly reports a failed undo step. "Observably": through `exists`, `get_key_id`, signing, and
//! the number of entries of the key-id store. A key that was created in memory but whose id no caller ever learnt is
//! not observable through the storage interfaces and is not judged.

use crate::tape;
use crate::tape::Tape;
use identity_did::CoreDID;
use identity_document::document::CoreDocument;
use identity_document::verifiable::JwsVerificationOptions;
use identity_eddsa_verifier::EdDSAJwsVerifier;
use identity_storage::JwkDocumentExt;
use identity_storage::JwkStorage;
use identity_storage::JwkStorageDocumentError;
use identity_storage::JwsSignatureOptions;
use identity_storage::KeyId;
use identity_storage::KeyIdStorage;
use identity_storage::KeyType;
use identity_storage::MethodDigest;
use identity_storage::Storage;
use identity_stronghold::StrongholdStorage;
use identity_verification::jose::jws::JwsAlgorithm;
use identity_verification::MethodRelationship;
use identity_verification::MethodScope;
use iota_sdk::client::secret::stronghold::StrongholdSecretManager;
use iota_sdk::client::secret::SecretManager;
use iota_sdk::client::Password;

pub struct Outcome {
  pub trace: Vec<String>,
  pub violations: Vec<(String, String, String)>, // (invariant, signature, message)
  pub ops: usize,
  pub faults: u32,
}

struct Tracked {
  fragment: String,
  key_id: String,
  digest: MethodDigest,
}

async fn key_id_entries(storage: &StrongholdStorage) -> Option<usize> {
  match storage.as_secret_manager() {
    SecretManager::Stronghold(adapter) => {
      let stronghold = adapter.inner().await;
      // (no client yet: nothing was ever stored)
      let Ok(client) = stronghold.get_client(b"iota_identity_client") else { return Some(0) };
      client.store().keys().ok().map(|k| k.len())
    }
    _ => None,
  }
}

fn describe_mask(mask: u32) -> String {
  if mask == 0 {
    "no fault".to_owned()
  } else {
    format!("snapshot writes failing: {:?}", (0..8).filter(|i| (mask >> i) & 1 == 1).collect::<Vec<_>>())
  }
}

async fn usable(doc: &CoreDocument, storage: &Storage<StrongholdStorage, StrongholdStorage>, fragment: &str) -> Result<(), String> {
  let jws = doc
    .create_jws(storage, fragment, b"usable?", &JwsSignatureOptions::default())
    .await
    .map_err(|e| format!("create_jws failed: {e}"))?;
  doc
    .verify_jws(jws.as_str(), None, &EdDSAJwsVerifier::default(), &JwsVerificationOptions::default())
    .map(|_| ())
    .map_err(|e| format!("token does not verify: {e}"))
}

pub async fn history(stronghold: &StrongholdStorage, t: &mut Tape, snapshot: &std::path::Path) -> Outcome {
  let mut out = Outcome { trace: vec![], violations: vec![], ops: 0, faults: 0 };
  let storage: Storage<StrongholdStorage, StrongholdStorage> = Storage::new(stronghold.clone(), stronghold.clone());
  let did = CoreDID::parse("did:sim:sh9").unwrap();
  let mut doc: CoreDocument = CoreDocument::builder(Default::default()).id(did).build().unwrap();
  let mut tracked: Vec<Tracked> = Vec::new();
  let mut next = 0usize;
  let n_ops = 3 + t.choose(6);
  macro_rules! viol {
    ($inv:expr, $sig:expr, $msg:expr) => {{
      let m: String = $msg;
      out.trace.push(format!("VIOLATION {} [{}]: {}", $inv, $sig, m));
      out.violations.push(($inv.to_owned(), $sig.to_owned(), m));
    }};
  }
  for step in 0..n_ops {
    out.ops += 1;
    // fault plan of this operation: none (two in five), or a tape-drawn subset of its first four snapshot writes
    let mask: u32 = if t.chance(2, 5) { 0 } else { 1 + t.choose(15) as u32 };
    // one operation in six (once something is stored): the key of the Stronghold is cleared (what its timeout does), a
    // storage-backed call is attempted while it is locked, and the password is set again. Only what was persisted
    // counts while locked; afterwards every method generated before must still have its key and be usable.
    if !tracked.is_empty() && t.chance(1, 6) {
      if let SecretManager::Stronghold(adapter) = stronghold.as_secret_manager() {
        adapter.clear_key().await;
        let attempt = t.choose(3);
        let what = match attempt {
          0 => {
            let r = doc
              .generate_method(&storage, KeyType::new("Ed25519"), JwsAlgorithm::EdDSA, Some("locked"), MethodScope::VerificationMethod)
              .await;
            if r.is_ok() {
              viol!("C09.ok_complete", "stronghold/locked/generate-succeeds", "generate_method succeeded while the key of the Stronghold was cleared".to_owned());
            }
            format!("generate_method -> {}", if r.is_ok() { "Ok" } else { "Err" })
          }
          1 => format!("exists -> {:?}", stronghold.exists(&KeyId::new(tracked[0].key_id.clone())).await.ok()),
          _ => format!("get_key_id -> {}", if stronghold.get_key_id(&tracked[0].digest).await.is_ok() { "Ok" } else { "Err" }),
        };
        let unlocked = adapter.set_password(Password::from("simulated".to_owned())).await;
        out.trace.push(format!("op{step} key cleared; {what}; password set again -> {}", if unlocked.is_ok() { "Ok" } else { "Err" }));
        // one successful write after unlocking
        let extra = format!("u{step}");
        let wrote = doc
          .generate_method(&storage, KeyType::new("Ed25519"), JwsAlgorithm::EdDSA, Some(extra.as_str()), MethodScope::VerificationMethod)
          .await
          .is_ok();
        if wrote {
          if let Some(m) = doc.resolve_method(extra.as_str(), None).cloned() {
            if let (Ok(d), true) = (MethodDigest::new(&m), true) {
              if let Ok(k) = stronghold.get_key_id(&d).await {
                tracked.push(Tracked { fragment: extra.clone(), key_id: k.as_str().to_owned(), digest: d });
              }
            }
          }
        }
        for tr in &tracked {
          let exists = stronghold.exists(&KeyId::new(tr.key_id.clone())).await.unwrap_or(false);
          let mapped = stronghold.get_key_id(&tr.digest).await.ok().map(|k| k.as_str() == tr.key_id).unwrap_or(false);
          let usable_now = usable(&doc, &storage, tr.fragment.as_str()).await;
          if !exists || !mapped || usable_now.is_err() {
            viol!(
              "C09.err_state_unchanged",
              "stronghold/locked/keys-lost-after-unlock",
              format!(
                "after the key of the Stronghold was cleared, a call was attempted ({what}) and the password was set again, method #{} has key: {exists}, key id: {mapped}, usable: {usable_now:?}",
                tr.fragment
              )
            );
            break;
          }
        }
        if !out.violations.is_empty() {
          break;
        }
        continue;
      }
    }
    let purge = !tracked.is_empty() && t.chance(1, 2);
    let doc_before = doc.clone();
    let entries_before = key_id_entries(stronghold).await;
    if purge {
      let idx = t.choose(tracked.len());
      let tr = &tracked[idx];
      let id = doc.resolve_method(tr.fragment.as_str(), None).map(|m| m.id().clone());
      let Some(id) = id else {
        viol!("C09.ok_complete", "stronghold/tracked-method-missing", format!("method #{} is not in the document", tr.fragment));
        break;
      };
      identity_stronghold::verif_hooks::set_snapshot_write_faults(mask);
      let r = doc.purge_method(&storage, &id).await;
      let writes = identity_stronghold::verif_hooks::snapshot_writes();
      identity_stronghold::verif_hooks::set_snapshot_write_faults(0);
      let fired = (0..writes.min(32)).filter(|i| (mask >> i) & 1 == 1).count() as u32;
      out.faults += fired;
      out.trace.push(format!(
        "op{step} purge_method(#{}) [{}; {writes} writes, {fired} failed] -> {}",
        tr.fragment,
        describe_mask(mask),
        match &r {
          Ok(()) => "Ok".to_owned(),
          Err(JwkStorageDocumentError::UndoOperationFailed { .. }) => "Err(UndoOperationFailed)".to_owned(),
          Err(e) => format!("Err({e})"),
        }
      ));
      let key_exists = stronghold.exists(&KeyId::new(tr.key_id.clone())).await.unwrap_or(false);
      let mapping = stronghold.get_key_id(&tr.digest).await.ok().map(|k| k.as_str().to_owned());
      match r {
        Ok(()) => {
          if doc.resolve_method(tr.fragment.as_str(), None).is_some() || key_exists || mapping.is_some() {
            viol!(
              "C09.ok_complete",
              "stronghold/purge/ok-but-something-left",
              format!("purge_method returned Ok but method present: {}, key exists: {key_exists}, key id recorded: {mapping:?}", doc.resolve_method(tr.fragment.as_str(), None).is_some())
            );
          }
          tracked.remove(idx);
        }
        Err(JwkStorageDocumentError::UndoOperationFailed { .. }) => {
          // the one permitted exception; the state is whatever the failed undo left: this history ends here
          out.trace.push("(explicit failed undo: history ends)".to_owned());
          break;
        }
        Err(e) => {
          let usable_now = usable(&doc, &storage, tr.fragment.as_str()).await;
          if doc != doc_before || !key_exists || mapping.as_deref() != Some(tr.key_id.as_str()) || usable_now.is_err() {
            viol!(
              "C09.err_state_unchanged",
              "stronghold/purge/plain-error-but-state-changed",
              format!(
                "purge_method returned `{e}` (no failed undo reported) but document unchanged: {}, key exists: {key_exists}, key id recorded: {mapping:?}, method usable: {usable_now:?}",
                doc == doc_before
              )
            );
            break;
          }
        }
      }
    } else {
      let fragment = format!("k{next}");
      next += 1;
      let scope = match t.choose(3) {
        0 => MethodScope::VerificationMethod,
        1 => MethodScope::VerificationRelationship(MethodRelationship::Authentication),
        _ => MethodScope::VerificationRelationship(MethodRelationship::AssertionMethod),
      };
      identity_stronghold::verif_hooks::set_snapshot_write_faults(mask);
      let r = doc
        .generate_method(&storage, KeyType::new("Ed25519"), JwsAlgorithm::EdDSA, Some(fragment.as_str()), scope)
        .await;
      let writes = identity_stronghold::verif_hooks::snapshot_writes();
      identity_stronghold::verif_hooks::set_snapshot_write_faults(0);
      let fired = (0..writes.min(32)).filter(|i| (mask >> i) & 1 == 1).count() as u32;
      out.faults += fired;
      out.trace.push(format!(
        "op{step} generate_method(#{fragment}) [{}; {writes} writes, {fired} failed] -> {}",
        describe_mask(mask),
        match &r {
          Ok(_) => "Ok".to_owned(),
          Err(JwkStorageDocumentError::UndoOperationFailed { .. }) => "Err(UndoOperationFailed)".to_owned(),
          Err(e) => format!("Err({e})"),
        }
      ));
      match r {
        Ok(_) => {
          let method = doc.resolve_method(fragment.as_str(), None).cloned();
          let digest = method.as_ref().and_then(|m| MethodDigest::new(m).ok());
          let key_id = match &digest {
            Some(d) => stronghold.get_key_id(d).await.ok(),
            None => None,
          };
          let exists = match &key_id {
            Some(k) => stronghold.exists(k).await.unwrap_or(false),
            None => false,
          };
          let usable_now = usable(&doc, &storage, fragment.as_str()).await;
          match (digest, key_id) {
            (Some(digest), Some(key_id)) if exists && usable_now.is_ok() => {
              if mask == 0 && t.chance(1, 3) {
                let rel = [MethodRelationship::KeyAgreement, MethodRelationship::CapabilityInvocation][t.choose(2)];
                let _ = doc.attach_method_relationship(fragment.as_str(), rel);
              }
              tracked.push(Tracked { fragment, key_id: key_id.as_str().to_owned(), digest });
            }
            (d, k) => {
              viol!(
                "C09.ok_complete",
                "stronghold/generate/ok-but-incomplete",
                format!(
                  "generate_method returned Ok but method resolves: {}, key id recorded: {:?}, key exists: {exists}, usable: {usable_now:?}",
                  d.is_some(),
                  k.map(|k| k.as_str().to_owned())
                )
              );
              break;
            }
          }
        }
        Err(JwkStorageDocumentError::UndoOperationFailed { .. }) => {
          out.trace.push("(explicit failed undo: history ends)".to_owned());
          break;
        }
        Err(e) => {
          let entries_after = key_id_entries(stronghold).await;
          if doc != doc_before || entries_after != entries_before {
            viol!(
              "C09.err_state_unchanged",
              if doc != doc_before { "stronghold/generate/plain-error-but-document-changed" } else { "stronghold/generate/plain-error-but-orphaned-key-id" },
              format!(
                "generate_method returned `{e}` (no failed undo reported) but document unchanged: {}, entries of the key-id store before / after: {entries_before:?} / {entries_after:?}",
                doc == doc_before
              )
            );
            break;
          }
        }
      }
      // everything tracked before is untouched by an operation on another method
      for tr in &tracked {
        let ok = stronghold.exists(&KeyId::new(tr.key_id.clone())).await.unwrap_or(false)
          && stronghold.get_key_id(&tr.digest).await.ok().map(|k| k.as_str() == tr.key_id).unwrap_or(false);
        if !ok {
          viol!("C09.err_state_unchanged", "stronghold/bystander-method-lost-its-key", format!("method #{} lost its key or key id", tr.fragment));
        }
      }
    }
    if !out.violations.is_empty() {
      break;
    }
  }
  // ---- keys nobody can name: a `generate` whose snapshot write fails returns an error instead of the key id, the only
  // handle on the new key. Such a key is not observable through the storage interfaces; what IS observable is the
  // snapshot file: after 20 refused generations and one successful write it must not have grown by 20 keys.
  if out.violations.is_empty() && t.chance(1, 5) {
    let probe_jwk: identity_verification::jose::jwk::Jwk =
      serde_json::from_value(serde_json::json!({"kty":"OKP","crv":"Ed25519","alg":"EdDSA","x":"CQkJCQkJCQkJCQkJCQkJCQkJCQkJCQkJCQkJCQkJCQk"})).unwrap();
    let probe_method = identity_verification::VerificationMethod::new_from_jwk(CoreDID::parse("did:sim:sh9").unwrap(), probe_jwk, Some("probe"));
    if let Some(digest) = probe_method.ok().and_then(|m| MethodDigest::new(&m).ok()) {
      let size = |p: &std::path::Path| std::fs::metadata(p).map(|m| m.len()).unwrap_or(0);
      let write_twice = |s: StrongholdStorage, d: MethodDigest| async move {
        let a = s.insert_key_id(d.clone(), KeyId::new("probe")).await.is_ok();
        let b = s.delete_key_id(&d).await.is_ok();
        a && b
      };
      if write_twice(stronghold.clone(), digest.clone()).await {
        let before = size(snapshot);
        let mut refused = 0;
        for _ in 0..20 {
          identity_stronghold::verif_hooks::set_snapshot_write_faults(1);
          if stronghold.generate(KeyType::new("Ed25519"), JwsAlgorithm::EdDSA).await.is_err() {
            refused += 1;
          }
          identity_stronghold::verif_hooks::set_snapshot_write_faults(0);
        }
        out.faults += refused;
        if write_twice(stronghold.clone(), digest).await {
          let after = size(snapshot);
          out.trace.push(format!("orphan probe: {refused} refused generations; snapshot {before} -> {after} bytes"));
          if refused == 20 && after > before + 1500 {
            viol!(
              "C09.err_state_unchanged",
              "stronghold/generate/refused-generations-grow-the-snapshot",
              format!("20 generations that returned an error (no key id handed out) and one successful write grew the snapshot file from {before} to {after} bytes: the keys nobody can name were persisted")
            );
          }
        }
      }
    }
  }
  out
}

pub fn run_history(seed: u64, idx: u64, work: &str, replay_tape: Option<Vec<u32>>) -> (Outcome, Vec<u32>) {
  let _ = iota_stronghold::engine::snapshot::try_set_encrypt_work_factor(0);
  let file = std::path::PathBuf::from(format!("{work}/c09-{seed}-{idx}.stronghold"));
  let _ = std::fs::remove_file(&file);
  let manager = StrongholdSecretManager::builder()
    .password(Password::from("simulated".to_owned()))
    .build(&file)
    .expect("stronghold");
  let storage = StrongholdStorage::new(manager);
  let rt = tokio::runtime::Builder::new_current_thread().build().expect("runtime");
  let mut t = match replay_tape {
    Some(d) => Tape::replay(d),
    None => Tape::record(tape::mix(seed ^ 0xC09, idx)),
  };
  let out = rt.block_on(history(&storage, &mut t, &file));
  drop(storage);
  let _ = std::fs::remove_file(&file);
  (out, t.rec)
}
