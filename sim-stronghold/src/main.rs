//! Sequential key-storage histories against the REAL `StrongholdStorage` (thorough tier of C15).
//!
//! Stronghold's internals (its own locks, snapshot file I/O) are outside the simulator; only the sequential contract
//! is judged here: no schedule or fault claim is made for Stronghold. Histories are generated from the same kind of
//! seeded tape as the main simulator; a history is re-executable from (seed, index).

#[path = "../../sim/src/core/tape.rs"]
#[allow(dead_code)]
mod tape;

use identity_did::CoreDID;
use identity_eddsa_verifier::EdDSAJwsVerifier;
use identity_storage::JwkStorage;
use identity_storage::KeyId;
use identity_storage::KeyIdStorage;
use identity_storage::KeyStorageErrorKind;
use identity_storage::KeyType;
use identity_storage::MethodDigest;
use identity_stronghold::StrongholdStorage;
use identity_verification::jose::jwk::Jwk;
use identity_verification::jose::jws::JwsAlgorithm;
use identity_verification::jose::jws::JwsVerifier;
use identity_verification::jose::jws::VerificationInput;
use identity_verification::VerificationMethod;
use iota_sdk::client::secret::stronghold::StrongholdSecretManager;
use iota_sdk::client::Password;
use sha2::Digest;
use std::collections::BTreeMap;
use tape::Tape;

fn b64(b: &[u8]) -> String {
  identity_verification::jose::jwu::encode_b64(b)
}

fn jwk(v: serde_json::Value) -> Jwk {
  serde_json::from_value(v).expect("jwk")
}

fn verify(pk: &Jwk, data: &[u8], sig: &[u8]) -> bool {
  EdDSAJwsVerifier::default()
    .verify(
      VerificationInput {
        alg: JwsAlgorithm::EdDSA,
        signing_input: data.to_vec().into_boxed_slice(),
        decoded_signature: sig.to_vec().into_boxed_slice(),
      },
      pk,
    )
    .is_ok()
}

struct Outcome {
  trace: Vec<String>,
  violations: Vec<(String, String, String)>, // (invariant, signature, message)
  ops: usize,
}

async fn history(storage: &StrongholdStorage, t: &mut Tape) -> Outcome {
  let mut out = Outcome { trace: vec![], violations: vec![], ops: 0 };
  // model
  let mut keys: BTreeMap<String, Jwk> = BTreeMap::new(); // present keys → public jwk
  let mut issued: Vec<String> = Vec::new(); // every id ever issued
  let mut digests: BTreeMap<usize, String> = BTreeMap::new();
  let did = CoreDID::parse("did:sim:sh").unwrap();
  let methods: Vec<MethodDigest> = (0..3)
    .map(|i| {
      let j = jwk(serde_json::json!({"kty":"OKP","crv":"Ed25519","alg":"EdDSA","x": b64(&[i as u8 + 1; 32])}));
      MethodDigest::new(&VerificationMethod::new_from_jwk(did.clone(), j, Some(&format!("m{i}"))).unwrap()).unwrap()
    })
    .collect();
  let n_ops = 5 + t.choose(8);
  let mut viol = |out: &mut Outcome, inv: &str, sig: &str, msg: String| {
    out.trace.push(format!("VIOLATION {inv} [{sig}]: {msg}"));
    out.violations.push((inv.to_owned(), sig.to_owned(), msg));
  };
  for step in 0..n_ops {
    out.ops += 1;
    let pick_id = |t: &mut Tape, issued: &Vec<String>| -> String {
      if issued.is_empty() || t.chance(1, 5) {
        "neverissuedneverissuedneverissued".to_owned()
      } else {
        issued[t.choose(issued.len())].clone()
      }
    };
    match t.weighted(&[4, 2, 4, 4, 3, 3, 2, 2]) {
      0 => {
        let bad = t.chance(1, 5);
        let (kt, alg) = if bad {
          [("Ed25519", JwsAlgorithm::ES256), ("NoSuchType", JwsAlgorithm::EdDSA)][t.choose(2)]
        } else {
          ("Ed25519", JwsAlgorithm::EdDSA)
        };
        let r = storage.generate(KeyType::new(kt), alg).await;
        out.trace.push(format!("op{step} generate({kt},{alg}) -> {}", if r.is_ok() { "Ok" } else { "Err" }));
        match r {
          Ok(o) => {
            let id = o.key_id.as_str().to_owned();
            let v = serde_json::to_value(&o.jwk).unwrap();
            if bad {
              viol(&mut out, "C15.generate_requires_compatible_alg", "stronghold/generate/accepted", format!("generate({kt},{alg}) succeeded"));
            }
            if v.get("d").is_some() {
              viol(&mut out, "C15.generate_public_only", "stronghold/generate/private-member", "generate returned private members".into());
            }
            let x = v["x"].as_str().unwrap_or("").to_owned();
            let tp = b64(&sha2::Sha256::digest(format!(r#"{{"crv":"Ed25519","kty":"OKP","x":"{x}"}}"#).as_bytes()));
            if v["kid"].as_str() != Some(tp.as_str()) {
              viol(&mut out, "C15.generate_kid_is_thumbprint", "stronghold/generate/kid", format!("kid {:?} != thumbprint {tp}", v["kid"]));
            }
            if v["alg"].as_str() != Some("EdDSA") {
              viol(&mut out, "C15.generate_alg_as_requested", "stronghold/generate/alg", format!("alg {:?}", v["alg"]));
            }
            if issued.contains(&id) {
              viol(&mut out, "C15.generate_fresh_key_id", "stronghold/generate/reused-id", format!("key id {id} issued twice"));
            }
            issued.push(id.clone());
            keys.insert(id, o.jwk);
          }
          Err(e) => {
            if !bad {
              viol(&mut out, "C15.generate_succeeds", "stronghold/generate/refused", format!("generate failed: {e}"));
            }
          }
        }
      }
      1 => {
        let mut seed = [0u8; 32];
        for b in seed.iter_mut() {
          *b = t.byte();
        }
        let sk = crypto::signatures::ed25519::SecretKey::from_bytes(&seed);
        let x = b64(sk.public_key().as_ref());
        let kind = t.choose(4);
        let mut j = serde_json::json!({"kty":"OKP","crv":"Ed25519","alg":"EdDSA","x": x, "d": b64(&seed)});
        match kind {
          1 => {
            j.as_object_mut().unwrap().remove("d");
          }
          2 => {
            j.as_object_mut().unwrap().remove("alg");
          }
          3 => j["alg"] = "ES256".into(),
          _ => {}
        }
        let r = storage.insert(jwk(j)).await;
        out.trace.push(format!("op{step} insert(kind {kind}) -> {}", if r.is_ok() { "Ok" } else { "Err" }));
        match (r, kind == 0) {
          (Ok(id), true) => {
            let id = id.as_str().to_owned();
            issued.push(id.clone());
            keys.insert(id, jwk(serde_json::json!({"kty":"OKP","crv":"Ed25519","alg":"EdDSA","x": x})));
          }
          (Ok(_), false) => viol(&mut out, "C15.insert_requires_private_compatible_jwk", "stronghold/insert/accepted", format!("invalid insert kind {kind} accepted")),
          (Err(e), true) => viol(&mut out, "C15.insert_accepts_valid", "stronghold/insert/valid-refused", format!("{e}")),
          (Err(_), false) => {}
        }
      }
      2 => {
        let id = pick_id(t, &issued);
        let pk = keys.get(&id).cloned().unwrap_or_else(|| jwk(serde_json::json!({"kty":"OKP","crv":"Ed25519","alg":"EdDSA","x": b64(&[7u8; 32])})));
        let data = format!("msg{step}").into_bytes();
        let r = storage.sign(&KeyId::new(id.clone()), &data, &pk).await;
        out.trace.push(format!("op{step} sign({id}) -> {}", if r.is_ok() { "Ok" } else { "Err" }));
        match (r, keys.contains_key(&id)) {
          (Ok(sig), true) => {
            if !verify(&keys[&id], &data, &sig) {
              viol(&mut out, "C15.signature_verifies_under_own_key", "stronghold/sign/does-not-verify", format!("signature for {id} does not verify"));
            }
            for (o, k) in keys.iter() {
              if *o != id && verify(k, &data, &sig) {
                viol(&mut out, "C15.signature_verifies_under_no_other_key", "stronghold/sign/other-key", format!("verifies under {o}"));
              }
            }
          }
          (Ok(_), false) => viol(&mut out, "C15.deleted_or_unknown_does_not_sign", "stronghold/sign/missing-key-signed", format!("sign succeeded for absent key id {id}")),
          (Err(e), true) => viol(&mut out, "C15.sign_succeeds", "stronghold/sign/refused", format!("sign failed for present key {id}: {e}")),
          (Err(_), false) => {}
        }
      }
      3 => {
        let id = pick_id(t, &issued);
        let r = storage.delete(&KeyId::new(id.clone())).await;
        out.trace.push(format!("op{step} delete({id}) -> {}", match &r { Ok(()) => "Ok".to_owned(), Err(e) => format!("Err({:?})", e.kind()) }));
        match (r, keys.contains_key(&id)) {
          (Ok(()), true) => {
            keys.remove(&id);
          }
          (Ok(()), false) => viol(
            &mut out,
            "C15.deleted_or_unknown_does_not_delete",
            if issued.contains(&id) { "stronghold/delete/already-deleted-reports-ok" } else { "stronghold/delete/never-issued-reports-ok" },
            format!("delete of absent key id {id} returned Ok"),
          ),
          (Err(e), true) => viol(&mut out, "C15.delete_succeeds", "stronghold/delete/refused", format!("{e}")),
          (Err(e), false) => {
            if !matches!(e.kind(), KeyStorageErrorKind::KeyNotFound) {
              viol(&mut out, "C15.delete_missing_reports_key_not_found", "stronghold/delete/wrong-kind", format!("{:?}", e.kind()));
            }
          }
        }
      }
      4 => {
        let id = pick_id(t, &issued);
        let r = storage.exists(&KeyId::new(id.clone())).await;
        out.trace.push(format!("op{step} exists({id}) -> {:?}", r.as_ref().ok()));
        if r.ok() != Some(keys.contains_key(&id)) {
          viol(&mut out, "C15.exists_reflects_state", "stronghold/exists/wrong", format!("exists({id}) but model says {}", keys.contains_key(&id)));
        }
      }
      5 => {
        let d = t.choose(3);
        let id = format!("{}#{step}", pick_id(t, &issued));
        let r = storage.insert_key_id(methods[d].clone(), KeyId::new(id.clone())).await;
        out.trace.push(format!("op{step} insert_key_id(d{d},{id}) -> {}", if r.is_ok() { "Ok" } else { "Err" }));
        match (r, digests.contains_key(&d)) {
          (Ok(()), false) => {
            digests.insert(d, id);
          }
          (Ok(()), true) => viol(&mut out, "C15.one_key_id_per_digest", "stronghold/insert_key_id/second-insert-accepted", format!("second insert for d{d} accepted")),
          (Err(e), false) => viol(&mut out, "C15.insert_key_id_succeeds", "stronghold/insert_key_id/refused", format!("{e}")),
          (Err(_), true) => {}
        }
      }
      6 => {
        let d = t.choose(3);
        let r = storage.get_key_id(&methods[d]).await;
        out.trace.push(format!("op{step} get_key_id(d{d}) -> {:?}", r.as_ref().ok().map(|k| k.as_str().to_owned())));
        if r.ok().map(|k| k.as_str().to_owned()) != digests.get(&d).cloned() {
          viol(&mut out, "C15.one_key_id_per_digest", "stronghold/get_key_id/wrong", format!("get_key_id(d{d}) differs from model {:?}", digests.get(&d)));
        }
      }
      _ => {
        let d = t.choose(3);
        let r = storage.delete_key_id(&methods[d]).await;
        out.trace.push(format!("op{step} delete_key_id(d{d}) -> {}", if r.is_ok() { "Ok" } else { "Err" }));
        match (r, digests.contains_key(&d)) {
          (Ok(()), true) => {
            digests.remove(&d);
          }
          (Ok(()), false) => viol(&mut out, "C15.delete_key_id_missing_is_error", "stronghold/delete_key_id/missing-reports-ok", format!("delete_key_id(d{d}) of absent mapping returned Ok")),
          (Err(e), true) => viol(&mut out, "C15.delete_key_id_succeeds", "stronghold/delete_key_id/refused", format!("{e}")),
          (Err(_), false) => {}
        }
      }
    }
  }
  out
}

fn run_history(seed: u64, idx: u64, work: &str, replay_tape: Option<Vec<u32>>) -> (Outcome, Vec<u32>) {
  let _ = iota_stronghold::engine::snapshot::try_set_encrypt_work_factor(0);
  let file = std::path::PathBuf::from(format!("{work}/sh-{seed}-{idx}.stronghold"));
  let _ = std::fs::remove_file(&file);
  let manager = StrongholdSecretManager::builder()
    .password(Password::from("simulated".to_owned()))
    .build(&file)
    .expect("stronghold");
  let storage = StrongholdStorage::new(manager);
  let rt = tokio::runtime::Builder::new_current_thread().build().expect("runtime");
  let mut t = match replay_tape {
    Some(d) => Tape::replay(d),
    None => Tape::record(tape::mix(seed, idx)),
  };
  let out = rt.block_on(history(&storage, &mut t));
  drop(storage);
  let _ = std::fs::remove_file(&file);
  (out, t.rec)
}

fn main() {
  let args: Vec<String> = std::env::args().collect();
  let verif = std::env::var("VERIF_DIR").unwrap_or_else(|_| "/verif".to_owned());
  let work = format!("{verif}/.work/stronghold");
  let _ = std::fs::create_dir_all(&work);
  let known: Vec<serde_json::Value> = std::fs::read_to_string(format!("{verif}/known_findings.json"))
    .ok()
    .and_then(|s| serde_json::from_str::<serde_json::Value>(&s).ok())
    .and_then(|v| v["findings"].as_array().cloned())
    .unwrap_or_default();
  if args.get(1).map(String::as_str) == Some("replay") {
    let v: serde_json::Value = serde_json::from_str(&std::fs::read_to_string(&args[2]).expect("replay file")).expect("json");
    let tape: Vec<u32> = serde_json::from_value(v["tape"].clone()).unwrap_or_default();
    let (out, _) = run_history(v["seed"].as_u64().unwrap_or(0), v["run"].as_u64().unwrap_or(0), &work, Some(tape));
    for l in &out.trace {
      println!("{l}");
    }
    let inv = v["invariant"].as_str().unwrap_or("");
    if out.violations.iter().any(|x| x.0 == inv) {
      println!("VIOLATION property=C15 replay={}", args[2]);
      std::process::exit(1);
    }
    eprintln!("replay did not reproduce {inv}");
    std::process::exit(2);
  }
  let runs: u64 = args.get(1).and_then(|v| v.parse().ok()).unwrap_or(300);
  let seed: u64 = std::env::var("VERIF_SEED").ok().and_then(|v| v.parse().ok()).unwrap_or(0x1D5EED);
  let start = std::time::Instant::now();
  let mut ops = 0usize;
  let mut exit = 0;
  let mut reported: Vec<(String, String)> = Vec::new();
  let mut sample: Vec<String> = Vec::new();
  let mut known_lines = 0;
  for idx in 0..runs {
    let (out, tape) = run_history(seed, idx, &work, None);
    ops += out.ops;
    if idx == 0 {
      sample = out.trace.clone();
    }
    for (inv, sig, msg) in &out.violations {
      if reported.contains(&(inv.clone(), sig.clone())) {
        continue;
      }
      reported.push((inv.clone(), sig.clone()));
      let k = known.iter().find(|e| e["property"] == "C15" && e["invariant"] == inv.as_str() && e["signature"] == sig.as_str());
      if let Some(k) = k {
        println!("KNOWN-FINDING: property=C15 invariant={inv} signature={sig} first_run={idx} {}", k["what_fails"].as_str().unwrap_or(""));
        known_lines += 1;
        continue;
      }
      let path = format!("{verif}/replays/C15-stronghold-{seed}-{idx}.json");
      let _ = std::fs::create_dir_all(format!("{verif}/replays"));
      let _ = std::fs::write(
        &path,
        serde_json::to_string_pretty(&serde_json::json!({"format":1,"engine":"stronghold","property":"C15","invariant":inv,"signature":sig,
          "message":msg,"seed":seed,"run":idx,"tape":tape,"trace":out.trace}))
        .unwrap(),
      );
      println!("VIOLATION property=C15 replay={path} invariant={inv} signature={sig} message={msg}");
      exit = 1;
    }
  }
  let frag = serde_json::json!({"tier":"stronghold_sequential","histories":runs,"operations":ops,"violation_groups":reported.len(),
    "known_findings_printed":known_lines,"wall_s":start.elapsed().as_secs_f64(),"sample_history":sample,
    "note":"real StrongholdStorage, sequential contract only; Stronghold internals are outside the simulator"});
  let _ = std::fs::write(format!("{verif}/.work/stronghold_tier.json"), serde_json::to_string_pretty(&frag).unwrap());
  eprintln!("[stronghold C15] histories={runs} ops={ops} violation_groups={} exit={exit}", reported.len());
  std::process::exit(exit);
}
