//! Sequential key-storage histories against the REAL `StrongholdStorage` (thorough tier of C15).
//!
//! Stronghold's internals (its own locks, snapshot file I/O) are outside the simulator; only the sequential contract
//! is judged here: no schedule or fault claim is made for Stronghold. Histories are generated from the same kind of
//! seeded tape as the main simulator; a history is re-executable from (seed, index).

#[path = "../../sim/src/core/tape.rs"]
#[allow(dead_code)]
mod tape;
mod c09;

use identity_did::CoreDID;
use identity_eddsa_verifier::EdDSAJwsVerifier;
use identity_storage::JwkStorage;
use identity_storage::JwkStorageBbsPlusExt;
use jsonprooftoken::jpa::algs::ProofAlgorithm;
use identity_storage::KeyId;
use identity_storage::KeyIdStorage;
use identity_storage::KeyStorageErrorKind;
use identity_storage::KeyType;
use identity_storage::MethodDigest;
use identity_stronghold::StrongholdStorage;
use identity_verification::jose::jwk::Jwk;
use identity_verification::jose::jws::JwsAlgorithm;
use identity_verification::jose::jws::JwsVerifier;
use identity_verification::jose::jws::VerificationInput;
use identity_verification::VerificationMethod;
use iota_sdk::client::secret::stronghold::StrongholdSecretManager;
use iota_sdk::client::Password;
use sha2::Digest;
use std::collections::BTreeMap;
use tape::Tape;

fn b64(b: &[u8]) -> String {
  identity_verification::jose::jwu::encode_b64(b)
}

fn jwk(v: serde_json::Value) -> Jwk {
  serde_json::from_value(v).expect("jwk")
}

fn verify(pk: &Jwk, data: &[u8], sig: &[u8]) -> bool {
  EdDSAJwsVerifier::default()
    .verify(
      VerificationInput {
        alg: JwsAlgorithm::EdDSA,
        signing_input: data.to_vec().into_boxed_slice(),
        decoded_signature: sig.to_vec().into_boxed_slice(),
      },
      pk,
    )
    .is_ok()
}

/// Own base64url decoding (no padding, URL-safe alphabet) for the verification helpers.
fn unb64(s: &str) -> Option<Vec<u8>> {
  let mut out = Vec::with_capacity(s.len() * 3 / 4);
  let (mut acc, mut bits) = (0u32, 0u32);
  for c in s.bytes() {
    let v = match c {
      b'A'..=b'Z' => c - b'A',
      b'a'..=b'z' => c - b'a' + 26,
      b'0'..=b'9' => c - b'0' + 52,
      b'-' => 62,
      b'_' => 63,
      _ => return None,
    } as u32;
    acc = (acc << 6) | v;
    bits += 6;
    if bits >= 8 {
      bits -= 8;
      out.push((acc >> bits) as u8);
      acc &= (1 << bits) - 1;
    }
  }
  Some(out)
}

/// BBS+ verification by the harness with the ciphersuite the key's own public JWK names (SHA-256 or SHAKE-256):
/// zkryptium directly.
fn bbs_verify(public_jwk: &Jwk, messages: &[Vec<u8>], header: &[u8], sig: &[u8]) -> bool {
  use zkryptium::bbsplus::ciphersuites::Bls12381Sha256;
  use zkryptium::bbsplus::ciphersuites::Bls12381Shake256;
  use zkryptium::bbsplus::keys::BBSplusPublicKey;
  use zkryptium::schemes::algorithms::BBSplus;
  use zkryptium::schemes::generics::Signature;
  let v = serde_json::to_value(public_jwk).unwrap_or_default();
  let coord = |n: &str| -> Option<[u8; 96]> {
    v.get(n).and_then(|x| x.as_str()).and_then(unb64).and_then(|b| <[u8; 96]>::try_from(b.as_slice()).ok())
  };
  let (Some(x), Some(y)) = (coord("x"), coord("y")) else { return false };
  let Ok(pk) = BBSplusPublicKey::from_coordinates(&x, &y) else { return false };
  let Ok(sig80) = <[u8; 80]>::try_from(sig) else { return false };
  if v.get("alg").and_then(|a| a.as_str()) == Some(ProofAlgorithm::BLS12381_SHAKE256.to_string().as_str()) {
    let Ok(signature) = Signature::<BBSplus<Bls12381Shake256>>::from_bytes(&sig80) else { return false };
    return signature.verify(&pk, Some(messages), Some(header)).is_ok();
  }
  let Ok(signature) = Signature::<BBSplus<Bls12381Sha256>>::from_bytes(&sig80) else { return false };
  signature.verify(&pk, Some(messages), Some(header)).is_ok()
}

/// `jwk` with `alg` naming the BBS+ ciphersuite it does NOT name.
fn other_suite_twin(jwk: &Jwk) -> Jwk {
  let mut v = serde_json::to_value(jwk).unwrap_or_default();
  let other = if v.get("alg").and_then(|a| a.as_str()) == Some(ProofAlgorithm::BLS12381_SHAKE256.to_string().as_str()) {
    ProofAlgorithm::BLS12381_SHA256
  } else {
    ProofAlgorithm::BLS12381_SHAKE256
  };
  v["alg"] = other.to_string().into();
  serde_json::from_value(v).unwrap_or_else(|_| jwk.clone())
}

/// Ed25519 verification by the harness (iota-crypto directly), next to the library's verifier.
fn verify_own(pk: &Jwk, data: &[u8], sig: &[u8]) -> bool {
  let x = serde_json::to_value(pk).ok().and_then(|v| v.get("x").and_then(|x| x.as_str().map(str::to_owned)));
  let Some(pk_bytes) = x.and_then(|x| unb64(&x)) else { return false };
  let (Ok(pk_arr), Ok(sig_arr)) = (<[u8; 32]>::try_from(pk_bytes.as_slice()), <[u8; 64]>::try_from(sig)) else { return false };
  let Ok(pk) = crypto::signatures::ed25519::PublicKey::try_from_bytes(pk_arr) else { return false };
  pk.verify(&crypto::signatures::ed25519::Signature::from_bytes(sig_arr), data)
}

fn is_bls(j: &Jwk) -> bool {
  serde_json::to_value(j).ok().and_then(|v| v.get("kty").and_then(|k| k.as_str().map(|k| k == "EC"))).unwrap_or(false)
}

struct Outcome {
  trace: Vec<String>,
  violations: Vec<(String, String, String)>, // (invariant, signature, message)
  ops: usize,
}

async fn history(storage: &StrongholdStorage, t: &mut Tape) -> Outcome {
  let mut out = Outcome { trace: vec![], violations: vec![], ops: 0 };
  // model
  let mut keys: BTreeMap<String, Jwk> = BTreeMap::new(); // present keys → public jwk
  let mut issued: Vec<String> = Vec::new(); // every id ever issued
  let mut digests: BTreeMap<usize, String> = BTreeMap::new();
  let did = CoreDID::parse("did:sim:sh").unwrap();
  let methods: Vec<MethodDigest> = (0..3)
    .map(|i| {
      let j = jwk(serde_json::json!({"kty":"OKP","crv":"Ed25519","alg":"EdDSA","x": b64(&[i as u8 + 1; 32])}));
      MethodDigest::new(&VerificationMethod::new_from_jwk(did.clone(), j, Some(&format!("m{i}"))).unwrap()).unwrap()
    })
    .collect();
  let n_ops = 5 + t.choose(8);
  let mut viol = |out: &mut Outcome, inv: &str, sig: &str, msg: String| {
    out.trace.push(format!("VIOLATION {inv} [{sig}]: {msg}"));
    out.violations.push((inv.to_owned(), sig.to_owned(), msg));
  };
  for step in 0..n_ops {
    out.ops += 1;
    let pick_id = |t: &mut Tape, issued: &Vec<String>| -> String {
      if issued.is_empty() || t.chance(1, 5) {
        "neverissuedneverissuedneverissued".to_owned()
      } else {
        issued[t.choose(issued.len())].clone()
      }
    };
    match t.weighted(&[4, 3, 5, 4, 3, 3, 2, 2, 3, 3]) {
      0 => {
        let bad = t.chance(1, 5);
        let (kt, alg) = if bad {
          [("Ed25519", JwsAlgorithm::ES256), ("NoSuchType", JwsAlgorithm::EdDSA)][t.choose(2)]
        } else {
          ("Ed25519", JwsAlgorithm::EdDSA)
        };
        let r = storage.generate(KeyType::new(kt), alg).await;
        out.trace.push(format!("op{step} generate({kt},{alg}) -> {}", if r.is_ok() { "Ok" } else { "Err" }));
        match r {
          Ok(o) => {
            let id = o.key_id.as_str().to_owned();
            let v = serde_json::to_value(&o.jwk).unwrap();
            if bad {
              viol(&mut out, "C15.generate_requires_compatible_alg", "stronghold/generate/accepted", format!("generate({kt},{alg}) succeeded"));
            }
            if v.get("d").is_some() {
              viol(&mut out, "C15.generate_public_only", "stronghold/generate/private-member", "generate returned private members".into());
            }
            let x = v["x"].as_str().unwrap_or("").to_owned();
            let tp = b64(&sha2::Sha256::digest(format!(r#"{{"crv":"Ed25519","kty":"OKP","x":"{x}"}}"#).as_bytes()));
            if v["kid"].as_str() != Some(tp.as_str()) {
              viol(&mut out, "C15.generate_kid_is_thumbprint", "stronghold/generate/kid", format!("kid {:?} != thumbprint {tp}", v["kid"]));
            }
            if v["alg"].as_str() != Some("EdDSA") {
              viol(&mut out, "C15.generate_alg_as_requested", "stronghold/generate/alg", format!("alg {:?}", v["alg"]));
            }
            if issued.contains(&id) {
              viol(&mut out, "C15.generate_fresh_key_id", "stronghold/generate/reused-id", format!("key id {id} issued twice"));
            }
            issued.push(id.clone());
            keys.insert(id, o.jwk);
          }
          Err(e) => {
            if !bad {
              viol(&mut out, "C15.generate_succeeds", "stronghold/generate/refused", format!("generate failed: {e}"));
            }
          }
        }
      }
      1 => {
        let mut seed = [0u8; 32];
        for b in seed.iter_mut() {
          *b = t.byte();
        }
        let sk = crypto::signatures::ed25519::SecretKey::from_bytes(&seed);
        let x = b64(sk.public_key().as_ref());
        let kind = t.choose(7);
        let mut j = serde_json::json!({"kty":"OKP","crv":"Ed25519","alg":"EdDSA","x": x, "d": b64(&seed)});
        match kind {
          1 => {
            j.as_object_mut().unwrap().remove("d");
          }
          2 => {
            j.as_object_mut().unwrap().remove("alg");
          }
          3 => j["alg"] = "ES256".into(),
          4 => {
            // `x` is the public key of ANOTHER secret than `d`: signatures made with `d` could never verify under this
            // JWK's public part
            let mut other = seed;
            other[0] ^= 1 + t.byte() % 255;
            j["x"] = b64(crypto::signatures::ed25519::SecretKey::from_bytes(&other).public_key().as_ref()).into();
          }
          5 | 6 => {
            // a private key of the store's other key type carrying the JWS algorithm (5) or its own proof algorithm (6):
            // `insert` is the EdDSA entry point, either is refused (the key bytes come from the OS RNG, for which
            // there is no seam; nothing recorded depends on them)
            let alg = ProofAlgorithm::BLS12381_SHA256;
            if let Ok((sk, pk)) = identity_storage::key_storage::bls::generate_bbs_keypair(alg) {
              let private = identity_storage::key_storage::bls::encode_bls_jwk(&sk, &pk, alg).0;
              j = serde_json::to_value(&private).unwrap();
              if kind == 5 {
                j["alg"] = "EdDSA".into();
              }
            }
          }
          _ => {}
        }
        let r = storage.insert(jwk(j)).await;
        out.trace.push(format!("op{step} insert(kind {kind}) -> {}", if r.is_ok() { "Ok" } else { "Err" }));
        match (r, kind == 0) {
          (Ok(id), true) => {
            let id = id.as_str().to_owned();
            issued.push(id.clone());
            keys.insert(id, jwk(serde_json::json!({"kty":"OKP","crv":"Ed25519","alg":"EdDSA","x": x})));
          }
          (Ok(_), false) => viol(&mut out, "C15.insert_requires_private_compatible_jwk", "stronghold/insert/accepted", format!("invalid insert kind {kind} accepted")),
          (Err(e), true) => viol(&mut out, "C15.insert_accepts_valid", "stronghold/insert/valid-refused", format!("{e}")),
          (Err(_), false) => {}
        }
      }
      2 => {
        let id = pick_id(t, &issued);
        let made_up = jwk(serde_json::json!({"kty":"OKP","crv":"Ed25519","alg":"EdDSA","x": b64(&[7u8; 32])}));
        let ed_others: Vec<Jwk> = keys.iter().filter(|(o, k)| **o != id && !is_bls(k)).map(|(_, k)| k.clone()).collect();
        let own = keys.get(&id).cloned();
        // the public JWK handed in: the key's own one; for the key id of a BBS+ key (and one time in four otherwise) the
        // public JWK of ANOTHER stored Ed25519 key or a made-up one ("mismatched public key on sign")
        let mismatched = own.as_ref().map(is_bls).unwrap_or(true) || t.chance(1, 4);
        let pk = if mismatched {
          if ed_others.is_empty() { made_up } else { ed_others[t.choose(ed_others.len())].clone() }
        } else {
          own.clone().unwrap()
        };
        let data = format!("msg{step}").into_bytes();
        let r = storage.sign(&KeyId::new(id.clone()), &data, &pk).await;
        out.trace.push(format!(
          "op{step} sign({id}{}{}) -> {}",
          if own.as_ref().map(is_bls).unwrap_or(false) { ", key id of a BBS+ key" } else { "" },
          if mismatched { ", public JWK of another key" } else { "" },
          if r.is_ok() { "Ok" } else { "Err" }
        ));
        match (r, own) {
          (Ok(sig), Some(own)) => {
            if is_bls(&own) {
              viol(&mut out, "C15.signature_verifies_under_own_key", "stronghold/sign/bbs-key-id-signs-eddsa", format!("sign returned an EdDSA signature for {id}, the key id of a BBS+ key: it cannot verify under that key's public JWK"));
            } else if !verify(&own, &data, &sig) || !verify_own(&own, &data, &sig) {
              viol(&mut out, "C15.signature_verifies_under_own_key", "stronghold/sign/does-not-verify", format!("signature for {id} does not verify under its public JWK"));
            }
            for (o, k) in keys.iter() {
              if *o != id && !is_bls(k) && (verify(k, &data, &sig) || verify_own(k, &data, &sig)) {
                viol(&mut out, "C15.signature_verifies_under_no_other_key", "stronghold/sign/other-key", format!("verifies under {o}"));
              }
            }
          }
          (Ok(_), None) => viol(&mut out, "C15.deleted_or_unknown_does_not_sign", "stronghold/sign/missing-key-signed", format!("sign succeeded for absent key id {id}")),
          // (a store may refuse a public JWK that is not the key's own)
          (Err(e), Some(_)) if !mismatched => viol(&mut out, "C15.sign_succeeds", "stronghold/sign/refused", format!("sign failed for present key {id}: {e}")),
          (Err(_), _) => {}
        }
      }
      3 => {
        let id = pick_id(t, &issued);
        let r = storage.delete(&KeyId::new(id.clone())).await;
        out.trace.push(format!("op{step} delete({id}) -> {}", match &r { Ok(()) => "Ok".to_owned(), Err(e) => format!("Err({:?})", e.kind()) }));
        match (r, keys.contains_key(&id)) {
          (Ok(()), true) => {
            keys.remove(&id);
          }
          (Ok(()), false) => viol(
            &mut out,
            "C15.deleted_or_unknown_does_not_delete",
            if issued.contains(&id) { "stronghold/delete/already-deleted-reports-ok" } else { "stronghold/delete/never-issued-reports-ok" },
            format!("delete of absent key id {id} returned Ok"),
          ),
          (Err(e), true) => viol(&mut out, "C15.delete_succeeds", "stronghold/delete/refused", format!("{e}")),
          (Err(e), false) => {
            if !matches!(e.kind(), KeyStorageErrorKind::KeyNotFound) {
              viol(&mut out, "C15.delete_missing_reports_key_not_found", "stronghold/delete/wrong-kind", format!("{:?}", e.kind()));
            }
          }
        }
      }
      4 => {
        let id = pick_id(t, &issued);
        let r = storage.exists(&KeyId::new(id.clone())).await;
        out.trace.push(format!("op{step} exists({id}) -> {:?}", r.as_ref().ok()));
        if r.ok() != Some(keys.contains_key(&id)) {
          viol(&mut out, "C15.exists_reflects_state", "stronghold/exists/wrong", format!("exists({id}) but model says {}", keys.contains_key(&id)));
        }
      }
      5 => {
        let d = t.choose(3);
        let id = format!("{}#{step}", pick_id(t, &issued));
        let r = storage.insert_key_id(methods[d].clone(), KeyId::new(id.clone())).await;
        out.trace.push(format!("op{step} insert_key_id(d{d},{id}) -> {}", if r.is_ok() { "Ok" } else { "Err" }));
        match (r, digests.contains_key(&d)) {
          (Ok(()), false) => {
            digests.insert(d, id);
          }
          (Ok(()), true) => viol(&mut out, "C15.one_key_id_per_digest", "stronghold/insert_key_id/second-insert-accepted", format!("second insert for d{d} accepted")),
          (Err(e), false) => viol(&mut out, "C15.insert_key_id_succeeds", "stronghold/insert_key_id/refused", format!("{e}")),
          (Err(_), true) => {}
        }
      }
      6 => {
        let d = t.choose(3);
        let r = storage.get_key_id(&methods[d]).await;
        out.trace.push(format!("op{step} get_key_id(d{d}) -> {:?}", r.as_ref().ok().map(|k| k.as_str().to_owned())));
        if r.ok().map(|k| k.as_str().to_owned()) != digests.get(&d).cloned() {
          viol(&mut out, "C15.one_key_id_per_digest", "stronghold/get_key_id/wrong", format!("get_key_id(d{d}) differs from model {:?}", digests.get(&d)));
        }
      }
      8 => {
        let bad = t.chance(1, 4);
        let (kt, alg) = if bad {
          [("Ed25519", ProofAlgorithm::BLS12381_SHA256), ("BLS12381G2", ProofAlgorithm::SU_ES256), ("NoSuchType", ProofAlgorithm::BLS12381_SHA256)][t.choose(3)]
        } else {
          ("BLS12381G2", [ProofAlgorithm::BLS12381_SHA256, ProofAlgorithm::BLS12381_SHAKE256][t.choose(2)])
        };
        let r = storage.generate_bbs(KeyType::new(kt), alg).await;
        out.trace.push(format!("op{step} generate_bbs({kt},{alg}) -> {}", if r.is_ok() { "Ok" } else { "Err" }));
        match r {
          Ok(o) => {
            let id = o.key_id.as_str().to_owned();
            let v = serde_json::to_value(&o.jwk).unwrap();
            if bad {
              viol(&mut out, "C15.generate_requires_compatible_alg", "stronghold/generate_bbs/accepted", format!("generate_bbs({kt},{alg}) succeeded"));
            }
            if v.get("d").is_some() {
              viol(&mut out, "C15.generate_public_only", "stronghold/generate_bbs/private-member", "generate_bbs returned private members".into());
            }
            if v["alg"].as_str() != Some(alg.to_string().as_str()) {
              viol(&mut out, "C15.generate_alg_as_requested", "stronghold/generate_bbs/alg", format!("alg {:?}, requested {alg}", v["alg"]));
            }
            if issued.contains(&id) {
              viol(&mut out, "C15.generate_fresh_key_id", "stronghold/generate_bbs/reused-id", format!("key id {id} issued twice"));
            }
            issued.push(id.clone());
            keys.insert(id, o.jwk);
          }
          Err(e) => {
            if !bad {
              viol(&mut out, "C15.generate_succeeds", "stronghold/generate_bbs/refused", format!("generate_bbs failed: {e}"));
            }
          }
        }
      }
      9 => {
        // sign_bbs: for a BBS+ key id with its own public JWK, with the public JWK of another stored BBS+ key, or for the
        // key id of an Ed25519 key / an absent key id with the public JWK of some stored BBS+ key
        let id = pick_id(t, &issued);
        let bls: Vec<(String, Jwk)> = keys.iter().filter(|(_, k)| is_bls(k)).map(|(o, k)| (o.clone(), k.clone())).collect();
        if bls.is_empty() {
          out.trace.push(format!("op{step} sign_bbs skipped (no BBS+ key stored)"));
          continue;
        }
        let own = keys.get(&id).cloned();
        let own_is_bls = own.as_ref().map(is_bls).unwrap_or(false);
        let pk = if own_is_bls && !t.chance(1, 3) { own.clone().unwrap() } else { bls[t.choose(bls.len())].1.clone() };
        let pk_is_own = own.as_ref().map(|o| serde_json::to_value(o).ok() == serde_json::to_value(&pk).ok()).unwrap_or(false);
        // one time in four the key's own public JWK is handed in with `alg` naming the OTHER BBS+ ciphersuite: whatever
        // is returned for this key id verifies under the key's own public JWK (own suite), or the call is refused
        let suite_twin = own_is_bls && pk_is_own && t.chance(1, 4);
        let pk = if suite_twin { other_suite_twin(&pk) } else { pk };
        let messages = vec![format!("m{step}").into_bytes(), b"second".to_vec()];
        let header = b"hdr".to_vec();
        let r = storage.sign_bbs(&KeyId::new(id.clone()), &messages, &header, &pk).await;
        out.trace.push(format!(
          "op{step} sign_bbs({id}{}{}) -> {}",
          if own.is_some() && !own_is_bls { ", key id of an Ed25519 key" } else { "" },
          if suite_twin { ", own public JWK naming the other ciphersuite" } else if pk_is_own { "" } else { ", public JWK of another key" },
          if r.is_ok() { "Ok" } else { "Err" }
        ));
        // update_signature (validity timeframe update of a BBS+ signature) for the same key id and public JWK: both
        // messages are replaced. For the key id of an Ed25519 key or an absent key id nothing may be returned; for a
        // BBS+ key id with its own public JWK the updated signature verifies over the new messages under that JWK.
        {
          // (both timeframe messages replaced, or only one of them)
          let which = t.choose(4);
          let new_messages = vec![
            if which != 1 { format!("n{step}").into_bytes() } else { messages[0].clone() },
            if which != 2 { b"second'".to_vec() } else { messages[1].clone() },
          ];
          let upd = identity_storage::ProofUpdateCtx {
            old_start_validity_timeframe: messages[0].clone(),
            new_start_validity_timeframe: new_messages[0].clone(),
            old_end_validity_timeframe: messages[1].clone(),
            new_end_validity_timeframe: new_messages[1].clone(),
            index_start_validity_timeframe: 0,
            index_end_validity_timeframe: 1,
            number_of_signed_messages: 2,
          };
          // the signature to update: the one just made if there is one, otherwise 80 bytes of a valid signature made with
          // another stored BBS+ key (so that the bytes parse)
          let base_sig: Option<Vec<u8>> = match &r {
            Ok(s) => Some(s.clone()),
            Err(_) => storage.sign_bbs(&KeyId::new(bls[0].0.clone()), &messages, &header, &bls[0].1).await.ok(),
          };
          if let Some(base_sig) = base_sig {
            let u = storage.update_signature(&KeyId::new(id.clone()), &pk, &base_sig, upd).await;
            out.trace.push(format!("op{step} update_signature({id}) -> {}", if u.is_ok() { "Ok" } else { "Err" }));
            match (u, &own) {
              (Ok(_), None) => viol(&mut out, "C15.deleted_or_unknown_does_not_sign", "stronghold/update_signature/missing-key-signed", format!("update_signature succeeded for absent key id {id}")),
              (Ok(_), Some(_)) if !own_is_bls => viol(&mut out, "C15.signature_verifies_under_own_key", "stronghold/update_signature/ed25519-key-id-signs-bbs", format!("update_signature returned a BBS+ signature for {id}, the key id of an Ed25519 key")),
              (Ok(updated), Some(own)) => {
                // (only judged when the signature that was updated is a valid one of this key: made just now with the
                // key's own JWK)
                if r.is_ok() && pk_is_own && !suite_twin && !bbs_verify(own, &new_messages, &header, &updated) {
                  viol(&mut out, "C15.signature_verifies_under_own_key", "stronghold/update_signature/does-not-verify", format!("updated BBS+ signature for {id} does not verify over the updated messages under its public JWK"));
                }
              }
              (Err(e), Some(_)) if own_is_bls && pk_is_own && !suite_twin && r.is_ok() => viol(&mut out, "C15.sign_succeeds", "stronghold/update_signature/refused", format!("update_signature failed for present key {id} with its own public JWK: {e}")),
              (Err(_), _) => {}
            }
          }
        }
        match (r, own) {
          (Ok(sig), Some(own)) => {
            if !own_is_bls {
              viol(&mut out, "C15.signature_verifies_under_own_key", "stronghold/sign_bbs/ed25519-key-id-signs-bbs", format!("sign_bbs returned a signature for {id}, the key id of an Ed25519 key"));
            } else if !bbs_verify(&own, &messages, &header, &sig) {
              viol(
                &mut out,
                "C15.signature_verifies_under_own_key",
                if suite_twin { "stronghold/sign_bbs/other-ciphersuite-named/does-not-verify-under-own-key" } else { "stronghold/sign_bbs/does-not-verify" },
                format!("BBS+ signature for {id} does not verify under its public JWK"),
              );
            }
            for (o, k) in bls.iter() {
              if *o != id && bbs_verify(k, &messages, &header, &sig) {
                viol(&mut out, "C15.signature_verifies_under_no_other_key", "stronghold/sign_bbs/other-key", format!("verifies under {o}"));
              }
            }
          }
          (Ok(_), None) => viol(&mut out, "C15.deleted_or_unknown_does_not_sign", "stronghold/sign_bbs/missing-key-signed", format!("sign_bbs succeeded for absent key id {id}")),
          (Err(e), Some(_)) if pk_is_own && !suite_twin => viol(&mut out, "C15.sign_succeeds", "stronghold/sign_bbs/refused", format!("sign_bbs failed for present key {id} with its own public JWK: {e}")),
          (Err(_), _) => {}
        }
      }
      _ => {
        let d = t.choose(3);
        let r = storage.delete_key_id(&methods[d]).await;
        out.trace.push(format!("op{step} delete_key_id(d{d}) -> {}", if r.is_ok() { "Ok" } else { "Err" }));
        match (r, digests.contains_key(&d)) {
          (Ok(()), true) => {
            digests.remove(&d);
          }
          (Ok(()), false) => viol(&mut out, "C15.delete_key_id_missing_is_error", "stronghold/delete_key_id/missing-reports-ok", format!("delete_key_id(d{d}) of absent mapping returned Ok")),
          (Err(e), true) => viol(&mut out, "C15.delete_key_id_succeeds", "stronghold/delete_key_id/refused", format!("{e}")),
          (Err(_), false) => {}
        }
      }
    }
  }
  out
}

fn run_history(seed: u64, idx: u64, work: &str, replay_tape: Option<Vec<u32>>) -> (Outcome, Vec<u32>) {
  let _ = iota_stronghold::engine::snapshot::try_set_encrypt_work_factor(0);
  let file = std::path::PathBuf::from(format!("{work}/sh-{seed}-{idx}.stronghold"));
  let _ = std::fs::remove_file(&file);
  let manager = StrongholdSecretManager::builder()
    .password(Password::from("simulated".to_owned()))
    .build(&file)
    .expect("stronghold");
  let storage = StrongholdStorage::new(manager);
  let rt = tokio::runtime::Builder::new_current_thread().build().expect("runtime");
  let mut t = match replay_tape {
    Some(d) => Tape::replay(d),
    None => Tape::record(tape::mix(seed, idx)),
  };
  let out = rt.block_on(history(&storage, &mut t));
  drop(storage);
  let _ = std::fs::remove_file(&file);
  (out, t.rec)
}

/// One history of a tier: (trace, violations, operations, faults fired, recorded tape).
type TierRun = (Vec<String>, Vec<(String, String, String)>, usize, u32, Vec<u32>);

fn run_tier_history(tier: &str, seed: u64, idx: u64, work: &str, replay_tape: Option<Vec<u32>>) -> TierRun {
  if tier == "c09" {
    let (o, tape) = c09::run_history(seed, idx, work, replay_tape);
    (o.trace, o.violations, o.ops, o.faults, tape)
  } else {
    let (o, tape) = run_history(seed, idx, work, replay_tape);
    (o.trace, o.violations, o.ops, 0, tape)
  }
}

fn main() {
  // idsim-stronghold [c09] <histories>   |   idsim-stronghold replay <file>
  let mut args: Vec<String> = std::env::args().collect();
  let verif = std::env::var("VERIF_DIR").unwrap_or_else(|_| "/verif".to_owned());
  let work = format!("{verif}/.work/stronghold");
  let _ = std::fs::create_dir_all(&work);
  let known: Vec<serde_json::Value> = std::fs::read_to_string(format!("{verif}/known_findings.json"))
    .ok()
    .and_then(|s| serde_json::from_str::<serde_json::Value>(&s).ok())
    .and_then(|v| v["findings"].as_array().cloned())
    .unwrap_or_default();
  if args.get(1).map(String::as_str) == Some("replay") {
    let v: serde_json::Value = serde_json::from_str(&std::fs::read_to_string(&args[2]).expect("replay file")).expect("json");
    let tape: Vec<u32> = serde_json::from_value(v["tape"].clone()).unwrap_or_default();
    let tier = v["tier"].as_str().unwrap_or("c15").to_owned();
    let property = v["property"].as_str().unwrap_or("C15").to_owned();
    let (trace, violations, _, _, _) = run_tier_history(&tier, v["seed"].as_u64().unwrap_or(0), v["run"].as_u64().unwrap_or(0), &work, Some(tape));
    for l in &trace {
      println!("{l}");
    }
    let inv = v["invariant"].as_str().unwrap_or("");
    if violations.iter().any(|x| x.0 == inv) {
      println!("VIOLATION property={property} replay={}", args[2]);
      std::process::exit(1);
    }
    eprintln!("replay did not reproduce {inv}");
    std::process::exit(2);
  }
  let tier = if args.get(1).map(String::as_str) == Some("c09") {
    args.remove(1);
    "c09"
  } else {
    "c15"
  };
  let property = if tier == "c09" { "C09" } else { "C15" };
  let runs: u64 = args.get(1).and_then(|v| v.parse().ok()).unwrap_or(300);
  let seed: u64 = std::env::var("VERIF_SEED").ok().and_then(|v| v.parse().ok()).unwrap_or(0x1D5EED);
  let start = std::time::Instant::now();
  let mut ops = 0usize;
  let mut faults = 0u64;
  let mut exit = 0;
  let mut reported: Vec<(String, String)> = Vec::new();
  let mut sample: Vec<String> = Vec::new();
  let mut known_lines = 0;
  for idx in 0..runs {
    let (trace, violations, n_ops, n_faults, tape) = run_tier_history(tier, seed, idx, &work, None);
    ops += n_ops;
    faults += n_faults as u64;
    if idx == 0 {
      sample = trace.clone();
    }
    for (inv, sig, msg) in &violations {
      if reported.contains(&(inv.clone(), sig.clone())) {
        continue;
      }
      reported.push((inv.clone(), sig.clone()));
      let k = known.iter().find(|e| e["property"] == property && e["invariant"] == inv.as_str() && e["signature"] == sig.as_str());
      if let Some(k) = k {
        println!("KNOWN-FINDING: property={property} invariant={inv} signature={sig} first_run={idx} {}", k["what_fails"].as_str().unwrap_or(""));
        known_lines += 1;
        continue;
      }
      let path = format!("{verif}/replays/{property}-stronghold-{seed}-{idx}.json");
      let _ = std::fs::create_dir_all(format!("{verif}/replays"));
      let _ = std::fs::write(
        &path,
        serde_json::to_string_pretty(&serde_json::json!({"format":1,"engine":"stronghold","tier":tier,"property":property,"invariant":inv,"signature":sig,
          "message":msg,"seed":seed,"run":idx,"tape":tape,"trace":trace}))
        .unwrap(),
      );
      println!("VIOLATION property={property} replay={path} invariant={inv} signature={sig} message={msg}");
      exit = 1;
    }
  }
  let frag = if tier == "c09" {
    serde_json::json!({"tier":"stronghold_snapshot_write_faults","histories":runs,"operations":ops,"snapshot_write_faults_fired":faults,
      "violation_groups":reported.len(),"known_findings_printed":known_lines,"wall_s":start.elapsed().as_secs_f64(),"sample_history":sample,
      "note":"real StrongholdStorage and JwkDocumentExt; the write of the snapshot file fails at tape-chosen occurrences (hook identity_stronghold::verif_hooks); sequential"})
  } else {
    serde_json::json!({"tier":"stronghold_sequential","histories":runs,"operations":ops,"violation_groups":reported.len(),
      "known_findings_printed":known_lines,"wall_s":start.elapsed().as_secs_f64(),"sample_history":sample,
      "note":"real StrongholdStorage, sequential contract only; Stronghold internals are outside the simulator"})
  };
  let frag_file = if tier == "c09" { "stronghold_c09_tier.json" } else { "stronghold_tier.json" };
  let _ = std::fs::write(format!("{verif}/.work/{frag_file}"), serde_json::to_string_pretty(&frag).unwrap());
  eprintln!("[stronghold {property}] histories={runs} ops={ops} faults={faults} violation_groups={} exit={exit}", reported.len());
  std::process::exit(exit);
}
