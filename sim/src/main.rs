#![allow(dead_code)]
//! idsim — deterministic simulation with fault injection for iotaledger/identity.rs (see /verif/DESIGN.md).

mod core;
mod engines;

use crate::core::batch::run_batch;
use crate::core::batch::BatchCfg;
use crate::core::batch::Engine;
use crate::core::batch::Params;
use identity_core::common::Timestamp;
use identity_core::register_custom_now_utc;

fn sim_now() -> Timestamp {
  crate::core::ctx::sim_now()
}
register_custom_now_utc!(sim_now);

const DEFAULT_SEED: u64 = 0x1D5EED;

fn engine_by_name(name: &str) -> Option<Box<dyn Engine>> {
  match name {
    "res" => Some(Box::new(engines::res::ResEngine)),
    "ks" => Some(Box::new(engines::ks::KsEngine)),
    "stor" => Some(Box::new(engines::stor::StorEngine)),
    "world" => Some(Box::new(engines::world::WorldEngine)),
    _ => None,
  }
}

struct Plan {
  engine: &'static str,
  level: &'static str,
  quick_runs: u64,
  thorough_runs: u64,
  params_quick: &'static [(&'static str, i64)],
  params_thorough: &'static [(&'static str, i64)],
}

fn plan_for(property: &str) -> Option<Plan> {
  Some(match property {
    "C16" => Plan {
      engine: "world",
      level: "exploration",
      quick_runs: 40_000,
      thorough_runs: 4_000_000,
      params_quick: &[],
      params_thorough: &[],
    },
    "C20" => Plan {
      engine: "res",
      level: "exploration",
      quick_runs: 2_000_000,
      thorough_runs: 200_000_000,
      params_quick: &[("max_list", 8)],
      params_thorough: &[("max_list", 8)],
    },
    "C09" => Plan {
      engine: "stor",
      level: "fault_enumeration",
      quick_runs: 100_000,
      thorough_runs: 6_000_000,
      params_quick: &[("max_ops", 12)],
      params_thorough: &[("max_ops", 12)],
    },
    "C01" => Plan {
      engine: "world",
      level: "exploration",
      quick_runs: 40_000,
      thorough_runs: 3_000_000,
      params_quick: &[],
      params_thorough: &[],
    },
    "C08" => Plan {
      engine: "world",
      level: "exploration",
      quick_runs: 40_000,
      thorough_runs: 3_000_000,
      params_quick: &[],
      params_thorough: &[],
    },
    "C02" => Plan {
      engine: "world",
      level: "exploration",
      quick_runs: 40_000,
      thorough_runs: 3_000_000,
      params_quick: &[],
      params_thorough: &[],
    },
    "C03" => Plan {
      engine: "world",
      level: "exploration",
      quick_runs: 40_000,
      thorough_runs: 3_000_000,
      params_quick: &[],
      params_thorough: &[],
    },
    "C04" => Plan {
      engine: "stor",
      level: "exploration",
      quick_runs: 100_000,
      thorough_runs: 6_000_000,
      params_quick: &[("max_ops", 12)],
      params_thorough: &[("max_ops", 12)],
    },
    "C06" => Plan {
      engine: "world",
      level: "exploration",
      quick_runs: 30_000,
      thorough_runs: 800_000,
      params_quick: &[("max_batch", 1000)],
      params_thorough: &[("max_batch", 100000)],
    },
    "C12" => Plan {
      engine: "world",
      level: "exploration",
      quick_runs: 10_000,
      thorough_runs: 600_000,
      params_quick: &[],
      params_thorough: &[],
    },
    "C14" => Plan {
      engine: "world",
      level: "exploration",
      quick_runs: 60_000,
      thorough_runs: 6_000_000,
      params_quick: &[],
      params_thorough: &[],
    },
    "C15" => Plan {
      engine: "ks",
      level: "exploration",
      quick_runs: 600_000,
      thorough_runs: 40_000_000,
      params_quick: &[("max_clients", 16)],
      params_thorough: &[("max_clients", 16)],
    },
    _ => return None,
  })
}

fn env_u64(name: &str) -> Option<u64> {
  std::env::var(name).ok().and_then(|v| {
    let v = v.trim();
    if let Some(h) = v.strip_prefix("0x") {
      u64::from_str_radix(h, 16).ok()
    } else {
      v.parse::<u64>().ok().or_else(|| v.parse::<i64>().ok().map(|x| x as u64))
    }
  })
}

fn usage() -> ! {
  eprintln!("usage: idsim check <property> <quick|thorough> | idsim replay <file> [--quiet] | idsim selftest <property> [runs]");
  std::process::exit(2)
}

fn main() {
  let args: Vec<String> = std::env::args().collect();
  if args.len() < 2 {
    usage();
  }
  let verif_dir = std::env::var("VERIF_DIR").unwrap_or_else(|_| "/verif".to_owned());
  match args[1].as_str() {
    "check" => {
      if args.len() < 4 {
        usage();
      }
      let property = args[2].clone();
      let tier = args[3].clone();
      let Some(plan) = plan_for(&property) else {
        eprintln!("no check for property {property}");
        std::process::exit(2);
      };
      let engine = engine_by_name(plan.engine).expect("engine exists");
      let seed = env_u64("VERIF_SEED").unwrap_or(DEFAULT_SEED);
      let runs = env_u64("VERIF_RUNS").unwrap_or(if tier == "thorough" {
        plan.thorough_runs
      } else {
        plan.quick_runs
      });
      let threads = env_u64("VERIF_THREADS").unwrap_or(16) as usize;
      let mut params: Params = Params::new();
      for (k, v) in if tier == "thorough" { plan.params_thorough } else { plan.params_quick } {
        params.insert((*k).to_owned(), *v);
      }
      let cfg = BatchCfg {
        property,
        tier,
        level: plan.level.to_owned(),
        seed,
        runs,
        threads,
        params,
        verif_dir,
        write_evidence: std::env::var("VERIF_NO_EVIDENCE").is_err(),
      };
      let r = run_batch(engine.as_ref(), &cfg);
      std::process::exit(r.exit_code);
    }
    "probe" => {
      // Child side of a crash probe: idsim probe <engine> <property> <name>. Exit 0 = the code under test returned
      // (outcome on stdout), 101 = panic, 3 = harness problem; a stack overflow ends the process by a signal.
      if args.len() < 5 {
        usage();
      }
      let Some(engine) = engine_by_name(&args[2]) else { usage() };
      // watchdog: code under test that neither returns nor crashes (an endless loop) ends the child with code 124
      std::thread::spawn(|| {
        std::thread::sleep(std::time::Duration::from_secs(60));
        eprintln!("probe watchdog: the code under test did not return within 60 s");
        std::process::exit(124);
      });
      crate::core::ctx::begin(crate::core::tape::Tape::record(DEFAULT_SEED), false);
      let outcome = engine.run_crash_probe(&args[3], &args[4]);
      let _ = crate::core::ctx::end();
      println!("{outcome}");
      if outcome.starts_with("panic") {
        std::process::exit(101);
      }
      if outcome.starts_with("wrong") {
        // the code under test returned, with a result the probe's fixed input does not allow
        eprintln!("{outcome}");
        std::process::exit(102);
      }
      if outcome.starts_with("harness") || outcome == "no such probe" {
        std::process::exit(3);
      }
      std::process::exit(0);
    }
    "replay" => {
      if args.len() < 3 {
        usage();
      }
      let quiet = args.iter().any(|a| a == "--quiet");
      let code = crate::core::batch::replay_file(&engine_by_name, &args[2], quiet);
      std::process::exit(code);
    }
    "selftest" => {
      // Determinism: print (run index, tape length, trace hash) for N runs; callers diff the output across processes.
      if args.len() < 3 {
        usage();
      }
      let property = args[2].clone();
      let runs: u64 = args.get(3).and_then(|v| v.parse().ok()).unwrap_or(2000);
      let Some(plan) = plan_for(&property) else { usage() };
      let engine = engine_by_name(plan.engine).expect("engine exists");
      let seed = env_u64("VERIF_SEED").unwrap_or(DEFAULT_SEED);
      let mut params: Params = Params::new();
      for (k, v) in plan.params_quick {
        params.insert((*k).to_owned(), *v);
      }
      crate::core::ctx::install_panic_hook();
      let threads = env_u64("VERIF_THREADS").unwrap_or(1) as usize;
      let results = std::sync::Mutex::new(std::collections::BTreeMap::new());
      let next = std::sync::atomic::AtomicU64::new(0);
      std::thread::scope(|s| {
        for _ in 0..threads {
          s.spawn(|| loop {
            let idx = next.fetch_add(1, std::sync::atomic::Ordering::Relaxed);
            if idx >= runs {
              break;
            }
            let tape = crate::core::tape::Tape::record(crate::core::tape::mix(seed, idx));
            let line = match crate::core::batch::run_one(engine.as_ref(), &property, &params, tape, false) {
              Ok(o) => format!("{idx} {} {:016x} {:016x} v={}", o.tape.len(), o.trace_hash, o.sched_hash, o.violations.len()),
              Err(e) => format!("{idx} PANIC {e}"),
            };
            results.lock().unwrap().insert(idx, line);
          });
        }
      });
      for (_, l) in results.into_inner().unwrap() {
        println!("{l}");
      }
    }
    _ => usage(),
  }
}
