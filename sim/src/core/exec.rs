//! Single-threaded executor whose every scheduling decision is taken by the caller (and hence by the tape).

use std::future::Future;
use std::pin::Pin;
use std::sync::atomic::AtomicBool;
use std::sync::atomic::AtomicU64;
use std::sync::atomic::Ordering;
use std::sync::Arc;
use std::task::Context;
use std::task::Poll;
use std::task::Wake;
use std::task::Waker;

pub struct WakeFlag {
  woken: AtomicBool,
  wakes: AtomicU64,
}

impl Wake for WakeFlag {
  fn wake(self: Arc<Self>) {
    self.wake_by_ref()
  }
  fn wake_by_ref(self: &Arc<Self>) {
    self.woken.store(true, Ordering::SeqCst);
    self.wakes.fetch_add(1, Ordering::SeqCst);
  }
}

struct Slot<'a> {
  name: String,
  fut: Option<Pin<Box<dyn Future<Output = ()> + 'a>>>,
  flag: Arc<WakeFlag>,
  polls: u64,
}

#[derive(Default)]
pub struct Exec<'a> {
  slots: Vec<Slot<'a>>,
}

impl<'a> Exec<'a> {
  pub fn new() -> Self {
    Exec { slots: Vec::new() }
  }

  /// Adds a task; it starts woken.
  pub fn spawn(&mut self, name: impl Into<String>, fut: impl Future<Output = ()> + 'a) -> usize {
    self.slots.push(Slot {
      name: name.into(),
      fut: Some(Box::pin(fut)),
      flag: Arc::new(WakeFlag {
        woken: AtomicBool::new(true),
        wakes: AtomicU64::new(0),
      }),
      polls: 0,
    });
    self.slots.len() - 1
  }

  pub fn name(&self, id: usize) -> &str {
    &self.slots[id].name
  }

  /// Ids of unfinished tasks that have been woken, in creation order.
  pub fn runnable(&self) -> Vec<usize> {
    self
      .slots
      .iter()
      .enumerate()
      .filter(|(_, s)| s.fut.is_some() && s.flag.woken.load(Ordering::SeqCst))
      .map(|(i, _)| i)
      .collect()
  }

  /// Ids of unfinished tasks.
  pub fn live(&self) -> Vec<usize> {
    self
      .slots
      .iter()
      .enumerate()
      .filter(|(_, s)| s.fut.is_some())
      .map(|(i, _)| i)
      .collect()
  }

  pub fn is_done(&self, id: usize) -> bool {
    self.slots[id].fut.is_none()
  }

  pub fn polls(&self, id: usize) -> u64 {
    self.slots[id].polls
  }

  pub fn waker(&self, id: usize) -> Waker {
    Waker::from(self.slots[id].flag.clone())
  }

  /// Polls task `id` once. Returns `true` when it finished.
  pub fn poll(&mut self, id: usize) -> bool {
    let slot = &mut self.slots[id];
    let Some(fut) = slot.fut.as_mut() else { return true };
    slot.flag.woken.store(false, Ordering::SeqCst);
    slot.polls += 1;
    let waker = Waker::from(slot.flag.clone());
    let mut cx = Context::from_waker(&waker);
    match fut.as_mut().poll(&mut cx) {
      Poll::Ready(()) => {
        slot.fut = None;
        true
      }
      Poll::Pending => false,
    }
  }

  /// Drops an unfinished task (cancellation).
  pub fn cancel(&mut self, id: usize) {
    self.slots[id].fut = None;
  }
}

/// A future that yields to the executor exactly once.
pub struct YieldNow(bool);

pub fn yield_now() -> YieldNow {
  YieldNow(false)
}

impl Future for YieldNow {
  type Output = ();
  fn poll(mut self: Pin<&mut Self>, cx: &mut Context<'_>) -> Poll<()> {
    if self.0 {
      Poll::Ready(())
    } else {
      self.0 = true;
      cx.waker().wake_by_ref();
      Poll::Pending
    }
  }
}

/// Drives a single future to completion with no scheduling choices (used for oracle-side reads of the stores).
pub fn block_on<T>(fut: impl Future<Output = T>) -> T {
  let flag = Arc::new(WakeFlag {
    woken: AtomicBool::new(true),
    wakes: AtomicU64::new(0),
  });
  let waker = Waker::from(flag.clone());
  let mut cx = Context::from_waker(&waker);
  let mut fut = std::pin::pin!(fut);
  let mut spins = 0u32;
  loop {
    if let Poll::Ready(v) = fut.as_mut().poll(&mut cx) {
      return v;
    }
    spins += 1;
    assert!(spins < 1_000_000, "block_on: future never completes");
  }
}
