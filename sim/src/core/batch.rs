//! Batch runner: many seeded runs on worker threads, violation handling (minimise → replay file → verify replay),
//! known-findings matching, evidence file.

use super::ctx;
use super::ctx::Outcome;
use super::ctx::Violation;
use super::tape::mix;
use super::tape::Tape;
use serde_json::json;
use serde_json::Value;
use std::collections::BTreeMap;
use std::collections::BTreeSet;
use std::collections::HashSet;
use std::sync::atomic::AtomicBool;
use std::sync::atomic::AtomicU64;
use std::sync::atomic::Ordering;
use std::sync::Mutex;
use std::time::Instant;

pub type Params = BTreeMap<String, i64>;

pub trait Engine: Sync {
  fn name(&self) -> &'static str;
  /// One simulated run for `property`; all choices through `ctx`.
  fn run(&self, property: &str, params: &Params);
  /// How cases are generated and what makes one distinct / non-trivial.
  fn rule(&self, property: &str) -> String;
  fn real_components(&self, property: &str) -> Vec<&'static str>;
  fn stub_components(&self, property: &str) -> Vec<&'static str>;
  fn assumptions(&self, property: &str) -> Vec<String>;
  /// Stats that must be non-zero after a thorough run (reach probes); a probe stuck at zero is a harness error.
  fn required_probes(&self, _property: &str, _tier: &str) -> Vec<String> {
    Vec::new()
  }
  /// How often the same tape is re-executed when a violation has to be reproduced. 1 for engines in which every
  /// source of non-determinism is behind a seam. The resolver's internal `HashSet` order is the one source that is
  /// not: on correct code nothing observable depends on it (determinism campaign), but a DEFECT may manifest only
  /// for some orders; such a violation is reproduced by retrying the identical tape.
  fn reproduce_attempts(&self) -> u32 {
    1
  }
  /// Probes that must run in a child process because the failure they look for (stack overflow, abort) cannot be
  /// caught in-process. Once per batch; the parent reads the child's exit status.
  fn crash_probes(&self, _property: &str, _tier: &str) -> Vec<String> {
    Vec::new()
  }
  /// Child side of a crash probe: returns a one-line outcome if the code under test returned at all.
  fn run_crash_probe(&self, _property: &str, _name: &str) -> String {
    "no such probe".to_owned()
  }
}

/// Re-executes `tape` until a violation of `invariant` shows (at most `engine.reproduce_attempts()` times).
/// (property, invariant, signature) of the recorded known findings: a violation that IS a known finding never counts
/// as a reproduction of another violation of the same invariant (shrinking must not drift from an unknown violation
/// into a known one).
static KNOWN_SIGNATURES: Mutex<Vec<(String, String, String)>> = Mutex::new(Vec::new());

fn is_known_finding(v: &Violation) -> bool {
  KNOWN_SIGNATURES
    .lock()
    .map(|k| k.iter().any(|(p, i, s)| *p == v.property && *i == v.invariant && *s == v.signature))
    .unwrap_or(false)
}

pub fn reproduce(
  engine: &dyn Engine,
  property: &str,
  params: &Params,
  tape: &[u32],
  keep_trace: bool,
  invariant: &str,
) -> Option<Outcome> {
  for _ in 0..engine.reproduce_attempts().max(1) {
    if let Ok(out) = run_one(engine, property, params, Tape::replay(tape.to_vec()), keep_trace) {
      if out.violations.iter().any(|v| v.invariant == invariant && v.property == property && !is_known_finding(v)) {
        return Some(out);
      }
    }
  }
  None
}

pub struct BatchCfg {
  pub property: String,
  pub tier: String,
  pub level: String,
  pub seed: u64,
  pub runs: u64,
  pub threads: usize,
  pub params: Params,
  pub verif_dir: String,
  pub write_evidence: bool,
}

pub fn run_one(engine: &dyn Engine, property: &str, params: &Params, tape: Tape, keep_trace: bool) -> Result<Outcome, String> {
  ctx::begin(tape, keep_trace);
  let r = ctx::catch(|| engine.run(property, params));
  let out = ctx::end();
  match r {
    Ok(()) => Ok(out),
    Err(msg) => Err(format!(
      "uncaught panic in run: {msg}; last trace lines: {:?}",
      out.trace.iter().rev().take(5).collect::<Vec<_>>()
    )),
  }
}

#[derive(Default)]
struct Acc {
  stats: BTreeMap<String, u64>,
  max_stats: BTreeMap<String, u64>,
  distinct: HashSet<u64>,
  distinct_overflow: bool,
  cover: BTreeSet<String>,
  evaluations: u64,
  nontrivial_runs: u64,
  sim_seconds: u64,
  violations: Vec<(u64, Violation)>,
  harness_errors: Vec<(u64, String)>,
}

const DISTINCT_CAP: usize = 3_000_000;

impl Acc {
  fn add(&mut self, idx: u64, out: Outcome) {
    self.evaluations += 1;
    for (k, v) in out.stats {
      if k.starts_with("max.") {
        let e = self.max_stats.entry(k).or_insert(0);
        if v > *e {
          *e = v
        }
      } else {
        *self.stats.entry(k).or_insert(0) += v;
      }
    }
    if out.nontrivial {
      self.nontrivial_runs += 1;
      if self.distinct.len() < DISTINCT_CAP {
        self.distinct.insert(out.sched_hash);
      } else {
        self.distinct_overflow = true;
      }
    }
    for c in out.cover {
      self.cover.insert(c);
    }
    self.sim_seconds += out.sim_seconds;
    for v in out.violations {
      if self.violations.len() < 2000 {
        self.violations.push((idx, v));
      }
    }
  }
  fn merge(&mut self, o: Acc) {
    for (k, v) in o.stats {
      *self.stats.entry(k).or_insert(0) += v;
    }
    for (k, v) in o.max_stats {
      let e = self.max_stats.entry(k).or_insert(0);
      if v > *e {
        *e = v
      }
    }
    for h in o.distinct {
      if self.distinct.len() < DISTINCT_CAP * 4 {
        self.distinct.insert(h);
      } else {
        self.distinct_overflow = true;
      }
    }
    self.distinct_overflow |= o.distinct_overflow;
    self.cover.extend(o.cover);
    self.evaluations += o.evaluations;
    self.nontrivial_runs += o.nontrivial_runs;
    self.sim_seconds += o.sim_seconds;
    self.violations.extend(o.violations);
    self.harness_errors.extend(o.harness_errors);
  }
}

pub struct KnownFindings {
  entries: Vec<Value>,
}

impl KnownFindings {
  pub fn load(verif_dir: &str) -> Self {
    let path = format!("{verif_dir}/known_findings.json");
    let entries = std::fs::read_to_string(&path)
      .ok()
      .and_then(|s| serde_json::from_str::<Value>(&s).ok())
      .and_then(|v| v.get("findings").and_then(|f| f.as_array().cloned()))
      .unwrap_or_default();
    KnownFindings { entries }
  }
  /// A finding matches on property + invariant + exact signature.
  pub fn matches(&self, v: &Violation) -> Option<String> {
    for e in &self.entries {
      if e.get("property").and_then(Value::as_str) == Some(&v.property)
        && e.get("invariant").and_then(Value::as_str) == Some(&v.invariant)
        && e.get("signature").and_then(Value::as_str) == Some(&v.signature)
      {
        return Some(
          e.get("what_fails")
            .and_then(Value::as_str)
            .unwrap_or("(no description)")
            .to_owned(),
        );
      }
    }
    None
  }
}

/// Delta debugging over the tape; a candidate is accepted iff it reproduces a violation with the same invariant id.
pub fn minimise(engine: &dyn Engine, property: &str, params: &Params, tape: Vec<u32>, invariant: &str) -> (Vec<u32>, u32) {
  let start = Instant::now();
  let mut execs = 0u32;
  let test = |cand: &Vec<u32>, execs: &mut u32| -> Option<Vec<u32>> {
    *execs += 1;
    reproduce(engine, property, params, cand, false, invariant).map(|out| out.tape)
  };
  // Normalise: the tape as consumed (may be shorter than given).
  let mut best = match test(&tape, &mut execs) {
    Some(_) => tape,
    None => return (tape, execs),
  };
  let budget = |execs: u32| execs < 2000 && start.elapsed().as_secs() < 30;
  let mut progress = true;
  while progress && budget(execs) {
    progress = false;
    // 1. truncate suffix (binary search for the shortest reproducing prefix; the rest reads as zeros).
    let (mut lo, mut hi) = (0usize, best.len());
    while lo < hi && budget(execs) {
      let mid = (lo + hi) / 2;
      let cand = best[..mid].to_vec();
      if test(&cand, &mut execs).is_some() {
        hi = mid;
      } else {
        lo = mid + 1;
      }
    }
    if hi < best.len() {
      let cand = best[..hi].to_vec();
      if test(&cand, &mut execs).is_some() {
        best = cand;
        progress = true;
      }
    }
    // strip trailing zeros (they are implied)
    while best.last() == Some(&0) {
      best.pop();
    }
    // 2. delete blocks, 3. zero blocks
    for &size in &[16usize, 8, 4, 2, 1] {
      let mut i = 0;
      while i + size <= best.len() && budget(execs) {
        let mut cand = best.clone();
        cand.drain(i..i + size);
        if let Some(_t) = test(&cand, &mut execs) {
          best = cand;
          progress = true;
          continue;
        }
        if best[i..i + size].iter().any(|v| *v != 0) {
          let mut cand = best.clone();
          for v in &mut cand[i..i + size] {
            *v = 0;
          }
          if test(&cand, &mut execs).is_some() {
            best = cand;
            progress = true;
          }
        }
        i += size;
      }
    }
    // 4. shrink individual values
    let mut i = 0;
    while i < best.len() && budget(execs) {
      let v = best[i];
      if v > 1 {
        for cand_v in [1, v / 2, v - 1] {
          if cand_v >= best[i] {
            continue;
          }
          let mut cand = best.clone();
          cand[i] = cand_v;
          if test(&cand, &mut execs).is_some() {
            best = cand;
            progress = true;
          }
        }
      }
      i += 1;
    }
    while best.last() == Some(&0) {
      best.pop();
    }
  }
  (best, execs)
}

pub fn replay_value(
  engine: &dyn Engine,
  cfg: &BatchCfg,
  run_idx: u64,
  out: &Outcome,
  v: &Violation,
  minimise_execs: u32,
) -> Value {
  json!({
    "format": 1,
    "engine": engine.name(),
    "property": cfg.property,
    "invariant": v.invariant,
    "signature": v.signature,
    "message": v.message,
    "seed": cfg.seed,
    "run": run_idx,
    "tier": cfg.tier,
    "params": cfg.params,
    "tape": out.tape,
    "trace": out.trace,
    "trace_hash": format!("{:016x}", out.trace_hash),
    "minimise_execs": minimise_execs,
  })
}

pub struct BatchResult {
  pub exit_code: i32,
}

pub fn run_batch(engine: &dyn Engine, cfg: &BatchCfg) -> BatchResult {
  let start = Instant::now();
  ctx::install_panic_hook();
  let next = AtomicU64::new(0);
  let stop = AtomicBool::new(false);
  let total = Mutex::new(Acc::default());
  let known = KnownFindings::load(&cfg.verif_dir);
  if let Ok(mut k) = KNOWN_SIGNATURES.lock() {
    *k = known
      .entries
      .iter()
      .map(|e| {
        let f = |n: &str| e.get(n).and_then(Value::as_str).unwrap_or("").to_owned();
        (f("property"), f("invariant"), f("signature"))
      })
      .collect();
  }
  let sample_idx: Vec<u64> = vec![0, 1, cfg.runs / 2];
  let samples: Mutex<BTreeMap<u64, Value>> = Mutex::new(BTreeMap::new());
  let nontrivial_sample: Mutex<Option<(u64, Value)>> = Mutex::new(None);

  std::thread::scope(|scope| {
    for _ in 0..cfg.threads.max(1) {
      scope.spawn(|| {
        let mut acc = Acc::default();
        loop {
          if stop.load(Ordering::Relaxed) {
            break;
          }
          let idx = next.fetch_add(1, Ordering::Relaxed);
          if idx >= cfg.runs {
            break;
          }
          let run_seed = mix(cfg.seed, idx);
          let keep = sample_idx.contains(&idx);
          match run_one(engine, &cfg.property, &cfg.params, Tape::record(run_seed), keep) {
            Ok(out) => {
              if keep {
                samples.lock().unwrap().insert(
                  idx,
                  json!({"run": idx, "run_seed": run_seed, "tape_len": out.tape.len(), "trace": out.trace.iter().take(60).collect::<Vec<_>>()}),
                );
              }
              if !out.violations.is_empty() {
                // Stop early only for violations that are not known findings.
                if out
                  .violations
                  .iter()
                  .any(|v| v.property == cfg.property && known.matches(v).is_none())
                {
                  stop.store(true, Ordering::Relaxed);
                }
              }
              if out.nontrivial && idx < 2000 {
                let mut g = nontrivial_sample.lock().unwrap();
                if g.as_ref().map(|(i, _)| idx < *i).unwrap_or(true) {
                  // re-run with trace kept
                  if let Ok(o2) = run_one(engine, &cfg.property, &cfg.params, Tape::replay(out.tape.clone()), true) {
                    *g = Some((
                      idx,
                      json!({"run": idx, "run_seed": run_seed, "nontrivial": true, "trace": o2.trace.iter().take(80).collect::<Vec<_>>()}),
                    ));
                  }
                }
              }
              acc.add(idx, out);
            }
            Err(msg) => {
              acc.harness_errors.push((idx, msg));
              stop.store(true, Ordering::Relaxed);
              break;
            }
          }
        }
        total.lock().unwrap().merge(acc);
      });
    }
  });

  let mut acc = total.into_inner().unwrap();
  let mut exit_code = 0;
  let mut known_lines: Vec<String> = Vec::new();
  let mut violation_lines: Vec<String> = Vec::new();
  let mut replay_paths: Vec<String> = Vec::new();

  if !acc.harness_errors.is_empty() {
    acc.harness_errors.sort();
    for (idx, msg) in acc.harness_errors.iter().take(3) {
      eprintln!(
        "HARNESS-ERROR property={} run={} run_seed={} {}",
        cfg.property,
        idx,
        mix(cfg.seed, *idx),
        msg
      );
    }
    exit_code = 2;
  }

  // Group violations by (invariant, signature); lowest run index represents the group.
  acc.violations.sort_by(|a, b| a.0.cmp(&b.0));
  let mut groups: BTreeMap<(String, String), (u64, Violation, u64)> = BTreeMap::new();
  for (idx, v) in &acc.violations {
    let key = (v.invariant.clone(), v.signature.clone());
    groups
      .entry(key)
      .and_modify(|e| e.2 += 1)
      .or_insert((*idx, v.clone(), 1));
  }
  let mut unknown: Vec<(u64, Violation, u64)> = Vec::new();
  for (_k, (idx, v, count)) in groups {
    if v.property != cfg.property {
      // An invariant of another property fired while this one was armed: observation only.
      continue;
    }
    match known.matches(&v) {
      Some(desc) => known_lines.push(format!(
        "KNOWN-FINDING: property={} invariant={} signature={} runs={} first_run={} {}",
        v.property, v.invariant, v.signature, count, idx, desc
      )),
      None => unknown.push((idx, v, count)),
    }
  }
  unknown.sort_by(|a, b| a.0.cmp(&b.0));
  if std::env::var("VERIF_DEBUG_GROUPS").is_ok() {
    for (idx, v, count) in &unknown {
      eprintln!("DEBUG unknown group run={idx} count={count} invariant={} signature={}", v.invariant, v.signature);
    }
  }
  let mut reported: BTreeSet<(String, String)> = BTreeSet::new();
  // Report at most 5 distinct unknown violation groups.
  for (idx, v, count) in unknown.iter().take(5) {
    let run_seed = mix(cfg.seed, *idx);
    // Re-run to obtain the tape, minimise, re-run with trace.
    let mut first: Option<Outcome> = None;
    for _ in 0..engine.reproduce_attempts().max(1) {
      match run_one(engine, &cfg.property, &cfg.params, Tape::record(run_seed), false) {
        Ok(o) => {
          if o.violations.iter().any(|x| x.invariant == v.invariant && !is_known_finding(x)) {
            first = Some(o);
            break;
          }
        }
        Err(e) => {
          eprintln!("HARNESS-ERROR re-run of violating run {idx} panicked: {e}");
          exit_code = 2;
          break;
        }
      }
    }
    let Some(first) = first else {
      eprintln!(
        "HARNESS-ERROR property={} run={} violation {} did not reproduce on re-execution (non-determinism)",
        cfg.property, idx, v.invariant
      );
      exit_code = 2;
      continue;
    };
    let (min_tape, execs) = minimise(engine, &cfg.property, &cfg.params, first.tape.clone(), &v.invariant);
    let out = match reproduce(engine, &cfg.property, &cfg.params, &min_tape, true, &v.invariant) {
      Some(o) => o,
      None => {
        eprintln!("HARNESS-ERROR minimised replay did not reproduce {}", v.invariant);
        exit_code = 2;
        continue;
      }
    };
    let mv = out
      .violations
      .iter()
      .find(|x| x.invariant == v.invariant && !is_known_finding(x))
      .cloned()
      .unwrap_or_else(|| v.clone());
    // A minimised trace may have turned into a known finding's signature; then it is that finding.
    if let Some(desc) = known.matches(&mv) {
      known_lines.push(format!(
        "KNOWN-FINDING: property={} invariant={} signature={} runs={} first_run={} {}",
        mv.property, mv.invariant, mv.signature, count, idx, desc
      ));
      continue;
    }
    if !reported.insert((mv.invariant.clone(), mv.signature.clone())) {
      continue;
    }
    let dir = format!("{}/replays", cfg.verif_dir);
    let _ = std::fs::create_dir_all(&dir);
    let path = format!("{dir}/{}-{}-{}.json", cfg.property, cfg.seed, idx);
    // Writes the replay file and verifies in a fresh process that it reproduces exactly.
    let write_and_verify = |out: &Outcome, mv: &Violation, execs: u32| -> Result<Option<i32>, String> {
      let value = replay_value(engine, cfg, *idx, out, mv, execs);
      std::fs::write(&path, serde_json::to_string_pretty(&value).unwrap()).map_err(|e| e.to_string())?;
      let exe = std::env::current_exe().expect("current exe");
      let status = std::process::Command::new(exe)
        .arg("replay")
        .arg(&path)
        .arg("--quiet")
        .status()
        .map_err(|e| e.to_string())?;
      Ok(status.code())
    };
    let mut mv = mv;
    let mut status = write_and_verify(&out, &mv, execs);
    if !matches!(status, Ok(Some(1))) {
      // The minimised tape fails only inside this process: code under test carried state from one execution into
      // the next (a cache, a thread-local), which misleads shrinking. Fall back to the recorded, unminimised tape.
      if let Some(out0) = reproduce(engine, &cfg.property, &cfg.params, &first.tape, true, &v.invariant) {
        if let Some(mv0) = out0.violations.iter().find(|x| x.invariant == v.invariant).cloned() {
          let s0 = write_and_verify(&out0, &mv0, 0);
          if matches!(s0, Ok(Some(1))) {
            eprintln!(
              "NOTE property={} run={}: minimised tape did not reproduce in a fresh process, the unminimised tape does (state carried across executions inside one process); replay file holds the unminimised tape",
              cfg.property, idx
            );
            mv = mv0;
            status = s0;
          }
        }
      }
    }
    match status {
      Err(e) => {
        eprintln!("HARNESS-ERROR cannot write or run replay file {path}: {e}");
        exit_code = 2;
      }
      Ok(Some(1)) => {
        violation_lines.push(format!(
          "VIOLATION property={} replay={} invariant={} signature={} runs={} message={}",
          cfg.property, path, mv.invariant, mv.signature, count, mv.message
        ));
        replay_paths.push(path);
        if exit_code == 0 {
          exit_code = 1;
        }
      }
      Ok(other) => {
        eprintln!("HARNESS-ERROR replay of {path} did not reproduce in a fresh process: exit {other:?}");
        exit_code = 2;
      }
    }
  }

  // Crash probes: one child process each. A child that ends by a signal (stack overflow: SIGABRT / SIGSEGV) or with
  // the panic exit code is a crash of the code under test on the probe's fixed input.
  let mut crash_probe_results: Vec<Value> = Vec::new();
  for name in engine.crash_probes(&cfg.property, &cfg.tier) {
    let (crashed, outcome) = run_crash_probe_child(engine.name(), &cfg.property, &name);
    crash_probe_results.push(json!({"probe": name, "crashed": crashed, "outcome": outcome}));
    let Some(crashed) = crashed else {
      eprintln!("HARNESS-ERROR property={} crash probe {name}: {outcome}", cfg.property);
      exit_code = 2;
      continue;
    };
    if !crashed {
      continue;
    }
    let v = Violation {
      property: cfg.property.clone(),
      invariant: format!("{}.error_never_crash", cfg.property),
      signature: format!("crash-probe/{name}/process-ended-abnormally"),
      message: format!("child process running crash probe {name} did not return: {outcome}"),
    };
    if let Some(desc) = known.matches(&v) {
      known_lines.push(format!(
        "KNOWN-FINDING: property={} invariant={} signature={} runs=1 first_run=crash-probe {}",
        v.property, v.invariant, v.signature, desc
      ));
      continue;
    }
    let dir = format!("{}/replays", cfg.verif_dir);
    let _ = std::fs::create_dir_all(&dir);
    let path = format!("{dir}/{}-crash-probe-{}.json", cfg.property, name);
    let value = json!({
      "engine": engine.name(),
      "property": cfg.property,
      "invariant": v.invariant,
      "signature": v.signature,
      "message": v.message,
      "crash_probe": name,
      "note": "fixed input, no tape: `idsim replay <this file>` re-runs the probe in a child process",
    });
    match std::fs::write(&path, serde_json::to_string_pretty(&value).unwrap()) {
      Ok(()) => {
        violation_lines.push(format!(
          "VIOLATION property={} replay={} invariant={} signature={} runs=1 message={}",
          cfg.property, path, v.invariant, v.signature, v.message
        ));
        replay_paths.push(path);
        if exit_code == 0 {
          exit_code = 1;
        }
      }
      Err(e) => {
        eprintln!("HARNESS-ERROR cannot write replay file {path}: {e}");
        exit_code = 2;
      }
    }
  }

  // Reach probes.
  let mut stuck: Vec<String> = Vec::new();
  for p in engine.required_probes(&cfg.property, &cfg.tier) {
    if let Some(spec) = p.strip_prefix("cover:") {
      // "cover:<group>>=<n>": at least n distinct coverage classes in that group
      let (group, n) = spec.split_once(">=").unwrap_or((spec, "1"));
      let n: usize = n.parse().unwrap_or(1);
      let prefix = format!("{group}:");
      let have = acc.cover.iter().filter(|c| c.starts_with(&prefix)).count();
      if have < n {
        stuck.push(format!("{p} (have {have})"));
      }
      continue;
    }
    let v = acc.stats.get(&p).copied().unwrap_or(0);
    if v == 0 {
      stuck.push(p);
    }
  }
  if !stuck.is_empty() && exit_code == 0 {
    eprintln!(
      "HARNESS-ERROR property={} reach probes stuck at zero: {:?}",
      cfg.property, stuck
    );
    exit_code = 2;
  }

  for l in &known_lines {
    println!("{l}");
  }
  for l in &violation_lines {
    println!("{l}");
  }

  let wall = start.elapsed().as_secs_f64();
  let distinct = acc.distinct.len() as u64;
  let mut sample_list: Vec<Value> = samples.into_inner().unwrap().into_values().collect();
  if let Some((_, v)) = nontrivial_sample.into_inner().unwrap() {
    sample_list.push(v);
  }
  // Coverage classes, grouped by prefix (text before the first ':').
  let mut cover_groups: BTreeMap<String, Vec<String>> = BTreeMap::new();
  for c in &acc.cover {
    let (g, rest) = c.split_once(':').unwrap_or(("misc", c.as_str()));
    cover_groups.entry(g.to_owned()).or_default().push(rest.to_owned());
  }
  let cover_counts: BTreeMap<String, usize> = cover_groups.iter().map(|(k, v)| (k.clone(), v.len())).collect();
  let cover_listed: BTreeMap<String, Vec<String>> = cover_groups
    .into_iter()
    .map(|(k, v)| (k, v.into_iter().take(400).collect()))
    .collect();
  let faults: BTreeMap<String, u64> = acc
    .stats
    .iter()
    .filter(|(k, _)| k.starts_with("fault."))
    .map(|(k, v)| (k.clone(), *v))
    .collect();

  let evidence = json!({
    "property_id": cfg.property,
    "tier": cfg.tier,
    "seed": cfg.seed,
    "level": cfg.level,
    "coverage": {
      "evaluations": acc.evaluations,
      "distinct_nontrivial": distinct,
      "distinct_nontrivial_is_lower_bound": acc.distinct_overflow,
      "nontrivial_runs": acc.nontrivial_runs,
      "rule": engine.rule(&cfg.property),
      "samples": sample_list,
      "exhaustive": false,
      "runs_per_hour": if wall > 0.0 { (acc.evaluations as f64 / wall * 3600.0) as u64 } else { 0 },
      "seeds_per_hour": if wall > 0.0 { (acc.evaluations as f64 / wall * 3600.0) as u64 } else { 0 },
      "simulated_seconds_covered": acc.sim_seconds,
      "faults_fired": faults,
      "counters": acc.stats,
      "maxima": acc.max_stats,
      "coverage_class_counts": cover_counts,
      "coverage_classes": cover_listed,
      "real_components": engine.real_components(&cfg.property),
      "stub_components": engine.stub_components(&cfg.property),
      "known_findings_printed": known_lines,
      "violation_lines": violation_lines,
      "replay_files": replay_paths,
      "reach_probes_stuck": stuck,
      "crash_probes": crash_probe_results,
      "engine": engine.name(),
      "worker_threads": cfg.threads,
      "params": cfg.params,
    },
    "assumptions": engine.assumptions(&cfg.property),
    "wall_s": wall,
    "violations": violation_lines.len(),
  });
  if cfg.write_evidence {
    let dir = format!("{}/evidence", cfg.verif_dir);
    let _ = std::fs::create_dir_all(&dir);
    let path = format!("{dir}/{}.json", cfg.property);
    if let Err(e) = std::fs::write(&path, serde_json::to_string_pretty(&evidence).unwrap()) {
      eprintln!("HARNESS-ERROR cannot write evidence {path}: {e}");
      exit_code = 2;
    }
  }
  eprintln!(
    "[{} {} {}] runs={} distinct_nontrivial={} violations={} known={} wall={:.1}s exit={}",
    engine.name(),
    cfg.property,
    cfg.tier,
    acc.evaluations,
    distinct,
    violation_lines.len(),
    known_lines.len(),
    wall,
    exit_code
  );
  BatchResult { exit_code }
}

/// Runs one crash probe in a child process. (Some(true), ..) = the child ended abnormally; (Some(false), outcome) =
/// the code under test returned; (None, ..) = the probe could not be run.
pub fn run_crash_probe_child(engine: &str, property: &str, name: &str) -> (Option<bool>, String) {
  let exe = match std::env::current_exe() {
    Ok(e) => e,
    Err(e) => return (None, format!("no current exe: {e}")),
  };
  let out = match std::process::Command::new(exe).arg("probe").arg(engine).arg(property).arg(name).output() {
    Ok(o) => o,
    Err(e) => return (None, format!("cannot spawn: {e}")),
  };
  let stdout = String::from_utf8_lossy(&out.stdout).trim().to_owned();
  match out.status.code() {
    Some(0) => (Some(false), stdout),
    Some(3) => (None, format!("probe reported a harness problem: {stdout}")),
    Some(c) => (Some(true), format!("exit code {c}; {}", String::from_utf8_lossy(&out.stderr).lines().last().unwrap_or(""))),
    None => {
      use std::os::unix::process::ExitStatusExt;
      (
        Some(true),
        format!(
          "killed by signal {}; {}",
          out.status.signal().unwrap_or(0),
          String::from_utf8_lossy(&out.stderr).lines().filter(|l| l.contains("overflow") || l.contains("fatal")).collect::<Vec<_>>().join(" / ")
        ),
      )
    }
  }
}

/// Re-executes a replay file. Exit code 1 = violation reproduced exactly, 2 = did not reproduce.
pub fn replay_file(engine_for: &dyn Fn(&str) -> Option<Box<dyn Engine>>, path: &str, quiet: bool) -> i32 {
  ctx::install_panic_hook();
  let text = match std::fs::read_to_string(path) {
    Ok(t) => t,
    Err(e) => {
      eprintln!("cannot read {path}: {e}");
      return 2;
    }
  };
  let v: Value = match serde_json::from_str(&text) {
    Ok(v) => v,
    Err(e) => {
      eprintln!("cannot parse {path}: {e}");
      return 2;
    }
  };
  let engine_name = v["engine"].as_str().unwrap_or("");
  let Some(engine) = engine_for(engine_name) else {
    eprintln!("unknown engine {engine_name}");
    return 2;
  };
  let property = v["property"].as_str().unwrap_or("").to_owned();
  let invariant = v["invariant"].as_str().unwrap_or("").to_owned();
  if let Some(name) = v["crash_probe"].as_str() {
    let (crashed, outcome) = run_crash_probe_child(engine.name(), &property, name);
    if !quiet {
      println!("crash probe {name}: {outcome}");
    }
    return match crashed {
      Some(true) => {
        if !quiet {
          println!("VIOLATION property={property} replay={path}");
        }
        1
      }
      Some(false) => {
        eprintln!("replay did not reproduce: the probe returned ({outcome})");
        2
      }
      None => {
        eprintln!("replay could not run: {outcome}");
        2
      }
    };
  }
  let params: Params = serde_json::from_value(v["params"].clone()).unwrap_or_default();
  let tape: Vec<u32> = serde_json::from_value(v["tape"].clone()).unwrap_or_default();
  let want_hash = v["trace_hash"].as_str().unwrap_or("").to_owned();
  let attempts = engine.reproduce_attempts().max(1);
  let mut last: Result<Outcome, String> = Err("not executed".to_owned());
  for _ in 0..attempts {
    last = run_one(engine.as_ref(), &property, &params, Tape::replay(tape.clone()), true);
    if let Ok(out) = &last {
      if out.violations.iter().any(|x| x.invariant == invariant) && format!("{:016x}", out.trace_hash) == want_hash {
        break;
      }
    }
  }
  match last {
    Ok(out) => {
      let got_hash = format!("{:016x}", out.trace_hash);
      let hit = out.violations.iter().find(|x| x.invariant == invariant);
      if !quiet {
        for l in &out.trace {
          println!("{l}");
        }
        println!("trace_hash={got_hash} (recorded {want_hash})");
      }
      match hit {
        Some(_) if got_hash == want_hash => {
          if !quiet {
            println!("VIOLATION property={property} replay={path}");
          }
          1
        }
        Some(_) => {
          eprintln!("replay reproduced the violation but the trace hash differs: {got_hash} vs {want_hash}");
          2
        }
        None => {
          eprintln!("replay did not reproduce violation {invariant}");
          2
        }
      }
    }
    Err(e) => {
      eprintln!("replay panicked: {e}");
      2
    }
  }
}
