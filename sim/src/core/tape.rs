//! The choice tape: the single source of every decision in a simulated run.
//!
//! Record mode draws from a xoshiro256** generator seeded (through splitmix64) from the run seed and appends every
//! draw to `rec`. Replay mode reads draws from a recorded tape; past its end every draw is 0. Generators are written
//! so that 0 is the boring choice (no fault, no yield, first runnable task, smallest size).

#[derive(Clone)]
pub struct Xo([u64; 4]);

pub fn splitmix(state: &mut u64) -> u64 {
  *state = state.wrapping_add(0x9E37_79B9_7F4A_7C15);
  let mut z = *state;
  z = (z ^ (z >> 30)).wrapping_mul(0xBF58_476D_1CE4_E5B9);
  z = (z ^ (z >> 27)).wrapping_mul(0x94D0_49BB_1331_11EB);
  z ^ (z >> 31)
}

/// Mixes a batch seed and a run index into a run seed.
pub fn mix(seed: u64, idx: u64) -> u64 {
  let mut s = seed ^ idx.wrapping_mul(0xD6E8_FEB8_6659_FD93);
  let a = splitmix(&mut s);
  let b = splitmix(&mut s);
  a ^ b.rotate_left(17)
}

impl Xo {
  pub fn new(seed: u64) -> Self {
    let mut s = seed;
    Xo([splitmix(&mut s), splitmix(&mut s), splitmix(&mut s), splitmix(&mut s)])
  }
  pub fn next(&mut self) -> u64 {
    let s = &mut self.0;
    let result = s[1].wrapping_mul(5).rotate_left(7).wrapping_mul(9);
    let t = s[1] << 17;
    s[2] ^= s[0];
    s[3] ^= s[1];
    s[1] ^= s[2];
    s[0] ^= s[3];
    s[2] ^= t;
    s[3] = s[3].rotate_left(45);
    result
  }
}

enum Source {
  Rng(Xo),
  Replay { data: Vec<u32>, pos: usize },
}

pub struct Tape {
  src: Source,
  /// Every draw made so far (value after reduction), in order.
  pub rec: Vec<u32>,
}

impl Tape {
  pub fn record(seed: u64) -> Self {
    Tape {
      src: Source::Rng(Xo::new(seed)),
      rec: Vec::new(),
    }
  }

  pub fn replay(data: Vec<u32>) -> Self {
    Tape {
      src: Source::Replay { data, pos: 0 },
      rec: Vec::new(),
    }
  }

  /// Uniform choice in `0..n`. `n <= 1` consumes nothing.
  pub fn choose(&mut self, n: usize) -> usize {
    if n <= 1 {
      return 0;
    }
    let v = match &mut self.src {
      Source::Rng(rng) => (rng.next() >> 11) % (n as u64),
      Source::Replay { data, pos } => {
        let v = data.get(*pos).copied().unwrap_or(0) as u64;
        *pos += 1;
        v % (n as u64)
      }
    };
    self.rec.push(v as u32);
    v as usize
  }

  /// `true` with probability num/den; a draw of 0 is always `false`.
  pub fn chance(&mut self, num: u32, den: u32) -> bool {
    if num == 0 {
      return false;
    }
    let r = self.choose(den as usize) as u32;
    r >= den.saturating_sub(num) && r != 0
  }

  /// Weighted choice; index 0 is the boring one and is selected by a draw of 0.
  pub fn weighted(&mut self, weights: &[u32]) -> usize {
    let total: u32 = weights.iter().sum();
    if total == 0 {
      return 0;
    }
    let mut r = self.choose(total as usize) as u32;
    for (i, w) in weights.iter().enumerate() {
      if r < *w {
        return i;
      }
      r -= *w;
    }
    0
  }

  pub fn range(&mut self, lo: i64, hi_incl: i64) -> i64 {
    lo + self.choose((hi_incl - lo + 1) as usize) as i64
  }

  pub fn byte(&mut self) -> u8 {
    self.choose(256) as u8
  }

  pub fn bytes(&mut self, n: usize) -> Vec<u8> {
    (0..n).map(|_| self.byte()).collect()
  }

  pub fn u32(&mut self) -> u32 {
    let hi = self.choose(65536) as u32;
    let lo = self.choose(65536) as u32;
    (hi << 16) | lo
  }
}

/// FNV-1a 64 used for trace and schedule hashes (stable across processes).
#[derive(Clone, Copy)]
pub struct Fnv(pub u64);

impl Default for Fnv {
  fn default() -> Self {
    Fnv(0xcbf2_9ce4_8422_2325)
  }
}

impl Fnv {
  pub fn write(&mut self, bytes: &[u8]) {
    for b in bytes {
      self.0 ^= *b as u64;
      self.0 = self.0.wrapping_mul(0x0000_0100_0000_01B3);
    }
  }
  pub fn write_u64(&mut self, v: u64) {
    self.write(&v.to_le_bytes());
  }
  pub fn of(bytes: &[u8]) -> u64 {
    let mut f = Fnv::default();
    f.write(bytes);
    f.0
  }
}
