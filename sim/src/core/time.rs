//! Harness-side RFC 3339 for whole-second UTC instants, independent of the library's `Timestamp`.

/// Days from civil date (proleptic Gregorian), Howard Hinnant's algorithm.
fn days_from_civil(y: i64, m: i64, d: i64) -> i64 {
  let y = if m <= 2 { y - 1 } else { y };
  let era = if y >= 0 { y } else { y - 399 } / 400;
  let yoe = y - era * 400;
  let doy = (153 * (if m > 2 { m - 3 } else { m + 9 }) + 2) / 5 + d - 1;
  let doe = yoe * 365 + yoe / 4 - yoe / 100 + doy;
  era * 146_097 + doe - 719_468
}

fn civil_from_days(z: i64) -> (i64, i64, i64) {
  let z = z + 719_468;
  let era = if z >= 0 { z } else { z - 146_096 } / 146_097;
  let doe = z - era * 146_097;
  let yoe = (doe - doe / 1460 + doe / 36_524 - doe / 146_096) / 365;
  let y = yoe + era * 400;
  let doy = doe - (365 * yoe + yoe / 4 - yoe / 100);
  let mp = (5 * doy + 2) / 153;
  let d = doy - (153 * mp + 2) / 5 + 1;
  let m = if mp < 10 { mp + 3 } else { mp - 9 };
  (if m <= 2 { y + 1 } else { y }, m, d)
}

/// `YYYY-MM-DDThh:mm:ssZ` for a unix time within years 0000-9999.
pub fn rfc3339(unix: i64) -> String {
  let days = unix.div_euclid(86_400);
  let secs = unix.rem_euclid(86_400);
  let (y, m, d) = civil_from_days(days);
  format!("{y:04}-{m:02}-{d:02}T{:02}:{:02}:{:02}Z", secs / 3600, secs % 3600 / 60, secs % 60)
}

/// Parses exactly the form produced by [`rfc3339`].
pub fn parse_rfc3339_z(s: &str) -> Option<i64> {
  let b = s.as_bytes();
  if b.len() != 20 || b[4] != b'-' || b[7] != b'-' || b[10] != b'T' || b[13] != b':' || b[16] != b':' || b[19] != b'Z' {
    return None;
  }
  let num = |r: std::ops::Range<usize>| -> Option<i64> { s.get(r)?.parse::<i64>().ok() };
  let (y, m, d, h, mi, se) = (num(0..4)?, num(5..7)?, num(8..10)?, num(11..13)?, num(14..16)?, num(17..19)?);
  if !(1..=12).contains(&m) || !(1..=31).contains(&d) || h > 23 || mi > 59 || se > 59 {
    return None;
  }
  Some(days_from_civil(y, m, d) * 86_400 + h * 3600 + mi * 60 + se)
}

#[cfg(test)]
mod tests {
  use super::*;
  #[test]
  fn round_trip() {
    for t in [0i64, 1, 951_782_400, 1_700_000_000, 1_709_164_800, 253_402_300_799, -62_167_219_200] {
      assert_eq!(parse_rfc3339_z(&rfc3339(t)), Some(t));
    }
    assert_eq!(rfc3339(1_700_000_000), "2023-11-14T22:13:20Z");
    assert_eq!(rfc3339(951_782_400), "2000-02-29T00:00:00Z");
  }
}
