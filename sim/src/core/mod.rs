pub mod time;
pub mod b64;
pub mod batch;
pub mod ctx;
pub mod exec;
pub mod tape;
