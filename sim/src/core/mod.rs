pub mod batch;
pub mod ctx;
pub mod exec;
pub mod tape;
