//! Harness-side base64url (RFC 4648 §5, no padding), independent of the library's helpers: oracles and generators
//! must not share an encoder with the code under test.

const ALPHA: &[u8; 64] = b"ABCDEFGHIJKLMNOPQRSTUVWXYZabcdefghijklmnopqrstuvwxyz0123456789-_";

pub fn encode(data: impl AsRef<[u8]>) -> String {
  let data = data.as_ref();
  let mut out = String::with_capacity(data.len().div_ceil(3) * 4);
  for chunk in data.chunks(3) {
    let b = [chunk[0], *chunk.get(1).unwrap_or(&0), *chunk.get(2).unwrap_or(&0)];
    let n = (b[0] as u32) << 16 | (b[1] as u32) << 8 | b[2] as u32;
    out.push(ALPHA[(n >> 18) as usize & 63] as char);
    out.push(ALPHA[(n >> 12) as usize & 63] as char);
    if chunk.len() > 1 {
      out.push(ALPHA[(n >> 6) as usize & 63] as char);
    }
    if chunk.len() > 2 {
      out.push(ALPHA[n as usize & 63] as char);
    }
  }
  out
}
