//! Thread-local simulation context: tape, trace, counters, clock. One simulated run owns the context of its worker
//! thread from `begin` to `end`; nothing in here reads a real clock, and logging never draws from the tape.

use super::tape::Fnv;
use super::tape::Tape;
use identity_core::common::Timestamp;
use std::cell::Cell;
use std::cell::RefCell;
use std::collections::BTreeMap;

#[derive(Clone, Debug)]
pub struct Violation {
  /// Property id, e.g. "C09".
  pub property: String,
  /// Invariant id, e.g. "C09.err_state_unchanged".
  pub invariant: String,
  /// Structural signature used to match known findings.
  pub signature: String,
  pub message: String,
}

pub struct Outcome {
  pub tape: Vec<u32>,
  pub trace: Vec<String>,
  pub trace_hash: u64,
  pub stats: BTreeMap<String, u64>,
  pub violations: Vec<Violation>,
  /// Hash identifying the schedule/fault vector of this run (for distinct counting).
  pub sched_hash: u64,
  /// Whether the run is non-trivial by the engine's rule.
  pub nontrivial: bool,
  /// Simulated seconds covered.
  pub sim_seconds: u64,
  /// Extra distinct-coverage keys (engine specific, e.g. completion permutations).
  pub cover: Vec<String>,
}

struct Ctx {
  tape: Tape,
  trace: Vec<String>,
  keep_trace: bool,
  hash: Fnv,
  sched: Fnv,
  stats: BTreeMap<String, u64>,
  violations: Vec<Violation>,
  nontrivial: bool,
  cover: Vec<String>,
  sim_start: i64,
  sim_max: i64,
  clock_reads: Vec<i64>,
  /// values that are not decided by the tape (identifiers drawn by production code from the OS RNG) and the aliases
  /// that stand for them in traces, signatures and messages; longest value first
  scrub: Vec<(String, String)>,
}

thread_local! {
  static CTX: RefCell<Option<Ctx>> = const { RefCell::new(None) };
  static CLOCK: Cell<i64> = const { Cell::new(BASE_TIME) };
  static PANIC_MSG: RefCell<Option<String>> = const { RefCell::new(None) };
}

pub const BASE_TIME: i64 = 1_700_000_000;

pub fn begin(tape: Tape, keep_trace: bool) {
  CLOCK.with(|c| c.set(BASE_TIME));
  CTX.with(|c| {
    *c.borrow_mut() = Some(Ctx {
      tape,
      trace: Vec::new(),
      keep_trace,
      hash: Fnv::default(),
      sched: Fnv::default(),
      stats: BTreeMap::new(),
      violations: Vec::new(),
      nontrivial: false,
      cover: Vec::new(),
      sim_start: BASE_TIME,
      sim_max: BASE_TIME,
      clock_reads: Vec::new(),
      scrub: Vec::new(),
    })
  });
}

pub fn end() -> Outcome {
  let ctx = CTX.with(|c| c.borrow_mut().take()).expect("ctx::end without begin");
  Outcome {
    tape: ctx.tape.rec,
    trace: ctx.trace,
    trace_hash: ctx.hash.0,
    stats: ctx.stats,
    violations: ctx.violations,
    sched_hash: ctx.sched.0,
    nontrivial: ctx.nontrivial,
    sim_seconds: (ctx.sim_max - ctx.sim_start).max(0) as u64,
    cover: ctx.cover,
  }
}

pub fn active() -> bool {
  CTX.with(|c| c.borrow().is_some())
}

fn with<R>(f: impl FnOnce(&mut Ctx) -> R) -> R {
  CTX.with(|c| {
    let mut guard = c.borrow_mut();
    f(guard.as_mut().expect("no simulation context on this thread"))
  })
}

pub fn choose(n: usize) -> usize {
  with(|c| c.tape.choose(n))
}
pub fn chance(num: u32, den: u32) -> bool {
  with(|c| c.tape.chance(num, den))
}
pub fn weighted(w: &[u32]) -> usize {
  with(|c| c.tape.weighted(w))
}
pub fn range(lo: i64, hi: i64) -> i64 {
  with(|c| c.tape.range(lo, hi))
}
pub fn bytes(n: usize) -> Vec<u8> {
  with(|c| c.tape.bytes(n))
}
pub fn draw_u32() -> u32 {
  with(|c| c.tape.u32())
}
pub fn pick<T: Clone>(items: &[T]) -> T {
  let i = choose(items.len());
  items[i].clone()
}

/// Appends a line to the trace (hashed always, stored only when traces are kept).
/// Registers a value that the tape does not decide (it differs from one execution to the next) together with the
/// alias that replaces it wherever the run writes it down.
pub fn scrub(value: impl Into<String>, alias: impl Into<String>) {
  let (value, alias) = (value.into(), alias.into());
  if value.is_empty() {
    return;
  }
  with(|c| {
    if !c.scrub.iter().any(|(v, _)| *v == value) {
      c.scrub.push((value, alias));
      c.scrub.sort_by(|a, b| b.0.len().cmp(&a.0.len()).then(a.0.cmp(&b.0)));
    }
  })
}

fn scrubbed(line: &str) -> String {
  with(|c| {
    if c.scrub.is_empty() {
      return line.to_owned();
    }
    let mut out = line.to_owned();
    for (v, a) in &c.scrub {
      if out.contains(v.as_str()) {
        out = out.replace(v.as_str(), a);
      }
    }
    out
  })
}

pub fn trace(line: impl AsRef<str>) {
  let line = scrubbed(line.as_ref());
  let line = line.as_str();
  with(|c| {
    c.hash.write(line.as_bytes());
    c.hash.write(b"\n");
    if c.keep_trace {
      c.trace.push(line.to_owned());
    }
  })
}

pub fn keeping_trace() -> bool {
  with(|c| c.keep_trace)
}

/// Feeds the schedule/fault hash (what makes two runs "distinct").
pub fn sched(tag: &str, v: u64) {
  with(|c| {
    c.sched.write(tag.as_bytes());
    c.sched.write_u64(v);
  })
}

pub fn stat(name: &str) {
  stat_n(name, 1)
}
pub fn stat_n(name: &str, n: u64) {
  with(|c| *c.stats.entry(name.to_owned()).or_insert(0) += n)
}
pub fn stat_max(name: &str, v: u64) {
  with(|c| {
    let e = c.stats.entry(name.to_owned()).or_insert(0);
    if v > *e {
      *e = v
    }
  })
}
pub fn cover(key: impl Into<String>) {
  with(|c| c.cover.push(key.into()))
}
pub fn mark_nontrivial() {
  with(|c| c.nontrivial = true)
}

pub fn violation(property: &str, invariant: &str, signature: impl Into<String>, message: impl Into<String>) {
  let v = Violation {
    property: property.to_owned(),
    invariant: invariant.to_owned(),
    signature: scrubbed(&signature.into()),
    message: scrubbed(&message.into()),
  };
  trace(format!("VIOLATION {} [{}]: {}", v.invariant, v.signature, v.message));
  with(|c| c.violations.push(v));
}

pub fn has_violation() -> bool {
  with(|c| !c.violations.is_empty())
}

// ---------------------------------------------------------------------------------------------------------------
// Clock
// ---------------------------------------------------------------------------------------------------------------

/// Sets the clock library code will read from now on (the clock of the acting party).
pub fn set_clock(unix: i64) {
  CLOCK.with(|c| c.set(unix));
  if active() {
    with(|c| {
      if unix > c.sim_max {
        c.sim_max = unix
      }
    });
  }
}
pub fn clock() -> i64 {
  CLOCK.with(|c| c.get())
}

/// Clock reads made by library code since the last `take_clock_reads`.
pub fn take_clock_reads() -> Vec<i64> {
  if !active() {
    return Vec::new();
  }
  with(|c| std::mem::take(&mut c.clock_reads))
}

/// The function registered with `register_custom_now_utc!`.
pub fn sim_now() -> Timestamp {
  let t = clock();
  CTX.with(|c| {
    if let Ok(mut g) = c.try_borrow_mut() {
      if let Some(ctx) = g.as_mut() {
        ctx.clock_reads.push(t);
      }
    }
  });
  Timestamp::from_unix(t).expect("simulated clock in range")
}

// ---------------------------------------------------------------------------------------------------------------
// Panic capture
// ---------------------------------------------------------------------------------------------------------------

pub fn install_panic_hook() {
  std::panic::set_hook(Box::new(|info| {
    let msg = format!("{info}");
    PANIC_MSG.with(|p| *p.borrow_mut() = Some(msg));
  }));
}

pub fn take_panic_msg() -> String {
  PANIC_MSG
    .with(|p| p.borrow_mut().take())
    .unwrap_or_else(|| "<no panic message>".to_owned())
}

/// Runs `f`, converting a panic into `Err(message)`.
pub fn catch<R>(f: impl FnOnce() -> R) -> Result<R, String> {
  match std::panic::catch_unwind(std::panic::AssertUnwindSafe(f)) {
    Ok(r) => Ok(r),
    Err(_) => Err(take_panic_msg()),
  }
}
