pub mod ks;
pub mod res;
