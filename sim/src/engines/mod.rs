pub mod res;
