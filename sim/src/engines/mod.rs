pub mod docmodel;
pub mod faulty;
pub mod ks;
pub mod res;
pub mod stor;
pub mod world;
