use crate::core::batch::Params;
pub const RULE: &str = "";
pub fn probes(_prop: &str, _tier: &str) -> Vec<String> {
  Vec::new()
}
pub fn run(_prop: &str, _params: &Params) {}
