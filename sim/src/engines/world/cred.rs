//! C02 / C03 — JWT credentials and presentations between issuers, holders, verifiers and a Byzantine network, over
//! simulated time, stale ledger reads, key rotation, scope changes and revocation.

use super::b64url_decode;
use super::did_of_url;
use super::doc_method;
use super::draw_lag;
use super::flip_bit;
use super::is_did;
use super::parse_compact;
use super::sig_truth;
use super::variant_names;
use super::Clock;
use super::Ledger;
use super::Party;
use crate::core::batch::Params;
use crate::core::ctx;
use crate::core::exec::block_on;
use crate::engines::docmodel::Scope;
use crate::engines::stor::to_scope;
use crate::engines::stor::AnyDoc;
use identity_core::common::Object;
use identity_core::common::Timestamp;
use identity_core::common::Url;
use identity_core::convert::FromJson;
use identity_credential::credential::Credential;
use identity_credential::credential::Jwt;
use identity_credential::presentation::JwtPresentationOptions;
use identity_credential::presentation::Presentation;
use identity_credential::revocation::RevocationBitmap;
use identity_credential::revocation::RevocationDocumentExt;
use identity_credential::validator::FailFast;
use identity_credential::validator::JwtCredentialValidationOptions;
use identity_credential::validator::JwtCredentialValidator;
use identity_credential::validator::JwtPresentationValidationOptions;
use identity_credential::validator::JwtPresentationValidator;
use identity_credential::validator::StatusCheck;
use identity_credential::validator::SubjectHolderRelationship;
use identity_did::DIDUrl;
use identity_document::document::CoreDocument;
use identity_document::verifiable::JwsVerificationOptions;
use identity_eddsa_verifier::EdDSAJwsVerifier;
use identity_storage::JwkDocumentExt;
use identity_storage::JwsSignatureOptions;
use serde_json::Value;
use std::collections::BTreeMap;
use std::collections::BTreeSet;

/// What an application that accepts several algorithms plugs in: EdDSA and ECDSA verifiers behind one `JwsVerifier`.
pub struct AnyVerifier;

impl identity_jose::jws::JwsVerifier for AnyVerifier {
  fn verify(
    &self,
    input: identity_jose::jws::VerificationInput,
    public_key: &identity_jose::jwk::Jwk,
  ) -> Result<(), identity_jose::jws::SignatureVerificationError> {
    match input.alg {
      identity_jose::jws::JwsAlgorithm::EdDSA => EdDSAJwsVerifier::default().verify(input, public_key),
      _ => identity_ecdsa_verifier::EcDSAJwsVerifier::default().verify(input, public_key),
    }
  }
}

pub const RULE: &str = "One run = 1-2 issuers, 1-2 holders, an adversary with its own DID and a verifier, each with its own \
  skewed clock and storage, over 6-18 simulated steps: issue credentials (random optional fields, status entries, dates \
  from the issuer's clock), rotate keys (same or new fragment), attach/detach relationships, revoke/unrevoke, publish \
  (the ledger may answer with a stale version), build presentations (kid as full id or fragment, exp/nbf from the \
  holder's clock, audience, custom claims), and validate tokens after network delivery with bit flips, truncation, \
  adversary re-signing, kid swap, splicing and alg change, under validation options drawn per call (nonce, scope, \
  method-id override, explicit or clock-default date bounds incl. the boundary second, status mode, subject-holder mode, \
  fail-fast). The oracle recomputes every conjunct from ground truth. Non-trivial: at least one validation met a false \
  conjunct, a stale document or a mutated token; distinct = distinct hashes of (fault/adversary moves, truth vectors).";

pub fn probes(prop: &str, _tier: &str) -> Vec<String> {
  let mut v: Vec<&str> = vec![
    "fault.net.bitflip",
    "fault.net.truncate",
    "fault.adversary.resign_own_key",
    "fault.adversary.kid_swap",
    "fault.adversary.splice",
    "fault.ledger.stale_read",
    "fault.clock.boundary",
    "probe.accepted",
    "probe.rejected",
    "probe.rotation",
    "fault.adversary.malformed_key_document",
  ];
  if prop == "C02" {
    v.extend([
      "false.nonce",
      "false.document_mismatch",
      "false.method_lookup",
      "false.signature",
      "false.identifier_mismatch",
      "false.issuance_date",
      "false.expiration_date",
      "false.structure",
      "false.claims_inconsistent",
      "false.subject_holder",
      "false.status.revoked",
      "false.status.invalid",
      "false.status.service_lookup",
      "probe.all_errors_multi",
      "probe.method_id_override",
      "probe.verify_signature_multi_issuer",
      "cover:c02vec>=40",
    ]);
  } else {
    v.extend([
      "false.p.nonce",
      "false.p.method_lookup",
      "false.p.signature",
      "false.p.document_mismatch",
      "false.p.expiration_date",
      "false.p.issuance_date",
      "false.p.structure",
      "probe.kid_fragment",
      "probe.foreign_method_listed",
      "cover:c03vec>=12",
    ]);
  }
  v.into_iter().map(str::to_owned).collect()
}

#[derive(Clone)]
struct CredToken {
  s: String,
  issuer: usize,
  kid: String,
  nonce: Option<String>,
  /// the credential exactly as the issuer passed it to create_credential_jwt (serialised)
  truth: Value,
  custom: Option<Value>,
  issued_index: Option<(String, u32)>,
  /// hand-made claims signed by the issuer: which defect they carry (None = produced by create_credential_jwt)
  crafted: Option<&'static str>,
}

#[derive(Clone)]
struct PresToken {
  s: String,
  holder: usize,
  nonce: Option<String>,
  truth: Value,
  aud: Option<String>,
  exp: Option<i64>,
  nbf: Option<i64>,
  custom: Option<Value>,
  /// hand-crafted claims signed by the holder: which defect they carry
  crafted: Option<&'static str>,
}

struct World {
  clock: Clock,
  ledger: Ledger,
  /// parties: issuers first, then holders, adversary last
  parties: Vec<Party>,
  n_issuers: usize,
  n_holders: usize,
  /// per DID: per published version: service id → revoked set
  bitmaps: BTreeMap<String, Vec<BTreeMap<String, BTreeSet<u32>>>>,
  /// current (unpublished) bitmap model per issuer index
  cur_bitmaps: Vec<BTreeMap<String, BTreeSet<u32>>>,
  creds: Vec<CredToken>,
  press: Vec<PresToken>,
  next_index: u32,
  nontrivial: bool,
  /// long-lived objects of the verifier application: created once at the start of the run and reused by every
  /// validation (validators) or cloned as the starting point of a validation's options (default options values)
  cred_validator: JwtCredentialValidator<AnyVerifier>,
  pres_validator: JwtPresentationValidator<AnyVerifier>,
  cred_default_opts: JwtCredentialValidationOptions,
  pres_default_opts: JwtPresentationValidationOptions,
}

const REL_AUTH: Scope = Some(0);
const REL_ASSERT: Scope = Some(1);

/// The DID spelled so that it is no DID any more, while a WHATWG URL parser normalises it back into one.
fn spelled_variant(did: &str) -> String {
  match ctx::choose(4) {
    0 => format!(" {did}"),
    1 => format!("{did}\n"),
    2 => {
      let cut = 4 + ctx::choose(did.len() - 5);
      format!("{}\t{}", &did[..cut], &did[cut..])
    }
    _ => format!("DID{}", &did[3..]),
  }
}

/// `s` is a syntactically valid DID followed by a non-empty path, query or fragment.
fn is_did_url_with_component(s: &str) -> bool {
  match s.find(['#', '/', '?']) {
    Some(i) => is_did(&s[..i]) && s.len() > i + 1,
    None => false,
  }
}

fn ts(unix: i64) -> Timestamp {
  Timestamp::from_unix(unix).expect("timestamp in range")
}

impl World {
  fn adversary(&self) -> usize {
    self.parties.len() - 1
  }
  fn holder(&self, i: usize) -> usize {
    self.n_issuers + i
  }
  fn publish(&mut self, p: usize) {
    let now = self.clock.now;
    self.clock.enter(self.parties[p].skew);
    if self.ledger.publish(&mut self.parties[p], now).is_ok() {
      let did = self.parties[p].did.clone();
      let m = if p < self.n_issuers {
        self.cur_bitmaps[p].clone()
      } else {
        BTreeMap::new()
      };
      self.bitmaps.entry(did).or_default().push(m);
    }
  }
  fn refs(&self) -> Vec<&Party> {
    self.parties.iter().collect()
  }
}

fn sign_credential(p: &Party, cred: &Credential, fragment: &str, opts: &JwsSignatureOptions, custom: Option<Object>) -> Result<String, String> {
  let r = match &p.doc {
    AnyDoc::Core(d) => block_on(d.create_credential_jwt(cred, &p.storage, fragment, opts, custom)),
    AnyDoc::Iota(d) => block_on(d.create_credential_jwt(cred, &p.storage, fragment, opts, custom)),
  };
  r.map(|j| j.as_str().to_owned()).map_err(|e| e.to_string())
}

fn sign_raw(p: &Party, fragment: &str, payload: &[u8], opts: &JwsSignatureOptions) -> Result<String, String> {
  let r = match &p.doc {
    AnyDoc::Core(d) => block_on(d.create_jws(&p.storage, fragment, payload, opts)),
    AnyDoc::Iota(d) => block_on(d.create_jws(&p.storage, fragment, payload, opts)),
  };
  r.map(|j| j.as_str().to_owned()).map_err(|e| e.to_string())
}

fn purge(p: &mut Party, fragment: &str) -> bool {
  let id = DIDUrl::parse(format!("{}#{fragment}", p.did)).unwrap();
  let st = &p.storage;
  let r = match &mut p.doc {
    AnyDoc::Core(d) => block_on(d.purge_method(st, &id)).is_ok(),
    AnyDoc::Iota(d) => block_on(d.purge_method(st, &id)).is_ok(),
  };
  if r {
    p.methods.retain(|m| m.0 != fragment);
  }
  r
}

// ---------------------------------------------------------------------------------------------------------------
// Issuance
// ---------------------------------------------------------------------------------------------------------------

fn issue(w: &mut World, step: usize) {
  let i = ctx::choose(w.n_issuers);
  let h = w.holder(ctx::choose(w.n_holders));
  let holder_did = w.parties[h].did.clone();
  let now_i = w.clock.enter(w.parties[i].skew);
  let p = &w.parties[i];
  // signing method: any method of the issuer
  if p.methods.is_empty() {
    return;
  }
  let (frag, _scope) = p.methods[ctx::choose(p.methods.len())].clone();
  let issuance = now_i - [0i64, 1, 60, 3600][ctx::choose(4)] + if ctx::chance(1, 10) { 120 } else { 0 };
  let expiry: Option<i64> = match ctx::choose(4) {
    0 => None,
    1 => Some(now_i + 30 + ctx::choose(60) as i64),
    2 => Some(now_i + 3600),
    _ => Some(now_i + 1 + ctx::choose(5) as i64),
  };
  let mut c = serde_json::json!({
    "@context": "https://www.w3.org/2018/credentials/v1",
    "type": ["VerifiableCredential", "SimCredential"],
    "issuer": p.did,
    "issuanceDate": crate::core::time::rfc3339(issuance),
    "credentialSubject": {"id": holder_did, "level": step},
  });
  let o = c.as_object_mut().unwrap();
  if ctx::choose(3) != 0 {
    o.insert("id".into(), format!("https://cred.example/{step}").into());
  }
  if let Some(e) = expiry {
    o.insert("expirationDate".into(), crate::core::time::rfc3339(e).into());
  }
  if ctx::chance(1, 12) {
    // structurally defective: lacks the base type
    o.insert("type".into(), serde_json::json!(["SimCredential"]));
  }
  if ctx::chance(1, 6) {
    o.insert("issuer".into(), serde_json::json!({"id": p.did, "name": "Sim Issuer"}));
  }
  if ctx::chance(1, 14) {
    // the issuer's DID with a URL component: a DID URL is not the issuer's DID
    let suffix = ["#sign", "/credentials", "?versionId=2"][ctx::choose(3)];
    o.insert("issuer".into(), format!("{}{suffix}", p.did).into());
    ctx::stat("fault.issuer.issuer_is_did_url");
  }
  if ctx::chance(1, 4) {
    o.insert("nonTransferable".into(), true.into());
  }
  if ctx::chance(1, 5) {
    o.insert("credentialSubject".into(), serde_json::json!({"id": "did:sim:somebodyelse", "level": step}));
  }
  if ctx::chance(1, 6) {
    o.insert("termsOfUse".into(), serde_json::json!([{"type": "SimPolicy", "id": "https://policy.example/1"}]));
  }
  if ctx::chance(1, 6) {
    o.insert("extraProperty".into(), serde_json::json!({"k": [1, 2, 3]}));
  }
  if ctx::chance(1, 8) {
    // an embedded proof next to the JWT envelope (typed, optional member of the credential)
    o.insert("proof".into(), serde_json::json!({"type": "SimProof2024", "proofValue": format!("z{step}"), "created": "2024-01-01T00:00:00Z"}));
  }
  let mut issued_index = None;
  let services: Vec<String> = w.cur_bitmaps[i].keys().cloned().collect();
  match ctx::weighted(&[3, 5, 1, 1, 1]) {
    0 => {}
    1 if !services.is_empty() => {
      let sid = services[ctx::choose(services.len())].clone();
      let index = if ctx::choose(2) == 0 {
        let v = w.next_index;
        w.next_index += 1;
        v
      } else {
        ctx::choose(w.next_index.max(1) as usize) as u32
      };
      let frag_s = sid.rsplit('#').next().unwrap();
      let status_id = if ctx::choose(2) == 0 {
        format!("{}?index={index}#{frag_s}", p.did)
      } else {
        sid.clone()
      };
      o.insert(
        "credentialStatus".into(),
        serde_json::json!({"id": status_id, "type": "RevocationBitmap2022", "revocationBitmapIndex": index.to_string()}),
      );
      issued_index = Some((sid, index));
    }
    2 => {
      o.insert("credentialStatus".into(), serde_json::json!({"id": "https://status.example/7", "type": "SomeOtherStatus2030"}));
    }
    3 => {
      // malformed bitmap status: index is not a number / query disagrees
      let bad = if ctx::choose(2) == 0 {
        serde_json::json!({"id": format!("{}#rev0", p.did), "type": "RevocationBitmap2022", "revocationBitmapIndex": "abc"})
      } else {
        serde_json::json!({"id": format!("{}?index=5#rev0", p.did), "type": "RevocationBitmap2022", "revocationBitmapIndex": "6"})
      };
      o.insert("credentialStatus".into(), bad);
    }
    4 => {
      // points at a service that does not exist in the issuer document, or at one that is not a bitmap service
      let frag_s = if ctx::choose(2) == 0 { "nosuchservice" } else { "notabitmap" };
      o.insert(
        "credentialStatus".into(),
        serde_json::json!({"id": format!("{}#{frag_s}", p.did), "type": "RevocationBitmap2022", "revocationBitmapIndex": "3"}),
      );
    }
    _ => {}
  }
  let Ok(cred) = Credential::<Object>::from_json_value(c) else { return };
  let truth = serde_json::to_value(&cred).unwrap();
  let mut opts = JwsSignatureOptions::default();
  let nonce = if ctx::chance(1, 3) {
    let n = if ctx::chance(1, 8) { String::new() } else { format!("n{}", ctx::choose(1000)) };
    opts = opts.nonce(n.clone());
    Some(n)
  } else {
    None
  };
  let custom: Option<Object> = if ctx::chance(1, 4) {
    let mut o = Object::new();
    o.insert("simClaim".into(), Value::from(ctx::choose(100) as u64));
    Some(o)
  } else {
    None
  };
  match sign_credential(p, &cred, &frag, &opts, custom.clone()) {
    Ok(s) => {
      let kid = format!("{}#{frag}", p.did);
      ctx::trace(format!("step {step}: I{i} issues credential (kid #{frag}, nonce {nonce:?}, status {issued_index:?})"));
      w.creds.push(CredToken {
        s,
        issuer: i,
        kid,
        nonce,
        truth,
        custom: custom.map(|o| serde_json::to_value(o).unwrap()),
        issued_index,
        crafted: None,
      });
    }
    Err(e) => ctx::trace(format!("step {step}: issuing failed: {e}")),
  }
}

/// The issuer signs hand-made credential claims (as another implementation or a careless integrator would produce
/// them) in which a value duplicated inside `vc` disagrees with, or lacks, its registered claim, or a numeric date is
/// out of range. Such a credential is not "the one that was signed" once the conflict is resolved silently, and an
/// expiration stated only inside `vc` must not escape the expiry check: the statement demands a structure error.
fn issue_crafted(w: &mut World, step: usize) {
  let i = ctx::choose(w.n_issuers);
  let now_i = w.clock.enter(w.parties[i].skew);
  let p = &w.parties[i];
  if p.methods.is_empty() {
    return;
  }
  let (frag, _) = p.methods[ctx::choose(p.methods.len())].clone();
  let kind = [
    "vc_expiration_without_exp",
    "vc_issuer_mismatch",
    "vc_issuance_mismatch",
    "exp_out_of_range",
    "sub_mismatch",
    "nbf_and_iat",
    "vc_date_outside_range_after_offset",
    "iss_spelled_with_whitespace_or_uppercase_scheme",
    "vc_issuer_object_with_description",
    "numeric_date_with_fraction",
    "base_context_not_first",
    "vc_issuance_agrees_with_iat_not_nbf",
  ][ctx::choose(12)];
  let mut claims = serde_json::json!({
    "iss": p.did,
    "nbf": now_i - 100,
    "sub": "did:sim:subject",
    "jti": format!("https://cred.example/crafted/{step}"),
    "vc": {"@context": "https://www.w3.org/2018/credentials/v1", "type": ["VerifiableCredential"], "credentialSubject": {"crafted": step}}
  });
  match kind {
    "vc_expiration_without_exp" => {
      // expired long ago, or still valid: either way the claims are inconsistent (no `exp`)
      let e = if ctx::choose(2) == 0 { now_i - 1000 } else { now_i + 100_000 };
      claims["vc"]["expirationDate"] = crate::core::time::rfc3339(e).into();
    }
    "vc_issuer_mismatch" => claims["vc"]["issuer"] = "did:sim:someoneelse".into(),
    "vc_issuance_mismatch" => claims["vc"]["issuanceDate"] = crate::core::time::rfc3339(now_i - 5000).into(),
    "vc_issuance_agrees_with_iat_not_nbf" => {
      // nbf and iat both present and different; the duplicate inside `vc` repeats iat. The credential's issuance date
      // is nbf: the duplicate disagrees with it (before or after it)
      let iat = now_i - 100 + [-5000i64, 5000, 40_000_000][ctx::choose(3)];
      claims["iat"] = Value::from(iat);
      claims["vc"]["issuanceDate"] = crate::core::time::rfc3339(iat).into();
    }
    "exp_out_of_range" => claims["exp"] = Value::from(1_000_000_000_000_000i64),
    "vc_issuer_object_with_description" => {
      // the duplicate inside `vc` describes the issuer (object form); the registered claim is the bare id: the two
      // are not the same value, and what the issuer signed about itself must not get lost silently
      claims["vc"]["issuer"] = serde_json::json!({"id": p.did, "name": "Sim University", "accreditation": format!("rev-{step}")});
    }
    "numeric_date_with_fraction" => {
      // NumericDates with a fractional part, within half a second of the instant the verifier is most likely to use
      match ctx::choose(3) {
        0 => claims["exp"] = serde_json::json!(now_i as f64 + [-0.5, 0.5, 1000.5][ctx::choose(3)]),
        1 => claims["nbf"] = serde_json::json!(now_i as f64 + [0.4, -0.4, -100.25][ctx::choose(3)]),
        _ => {
          claims.as_object_mut().unwrap().remove("nbf");
          claims["iat"] = serde_json::json!(now_i as f64 + 0.4);
        }
      }
    }
    "iss_spelled_with_whitespace_or_uppercase_scheme" => {
      // not the issuer's DID (not a DID at all), although a URL parser that strips blanks, drops TAB / LF / CR and
      // lower-cases the scheme would turn it into one
      claims["iss"] = spelled_variant(&p.did).into();
    }
    "vc_date_outside_range_after_offset" => {
      // RFC 3339 strings that denote an instant outside years 0000-9999 once the offset is applied: not a date the
      // credential model can carry (and no registered claim agrees with it)
      if ctx::choose(2) == 0 {
        claims["vc"]["expirationDate"] = "9999-12-31T23:59:59-01:00".into();
      } else {
        claims["vc"]["issuanceDate"] = "0000-01-01T00:00:00+01:00".into();
      }
    }
    "base_context_not_first" => {
      // the base context is present but not the FIRST entry (VC data model: "the first item is a URI with the value
      // https://www.w3.org/2018/credentials/v1"): well-formed claims, a structurally invalid credential
      // (also: the first entry is the base context of ANOTHER version of the data model, as issuers of the next
      // version write it - alone, or followed by the v1 context)
      claims["vc"]["@context"] = match ctx::choose(5) {
        0 => serde_json::json!(["https://www.w3.org/2018/credentials/examples/v1", "https://www.w3.org/2018/credentials/v1"]),
        1 => serde_json::json!([{"sim": "https://sim.example/vocab#"}, "https://www.w3.org/2018/credentials/v1"]),
        2 => serde_json::json!("https://www.w3.org/ns/credentials/v2"),
        3 => serde_json::json!(["https://www.w3.org/ns/credentials/v2", "https://www.w3.org/2018/credentials/v1"]),
        _ => serde_json::json!(["https://www.w3.org/2018/credentials/v2", "https://www.w3.org/ns/credentials/examples/v2"]),
      };
    }
    "nbf_and_iat" => {
      // both claims present: the credential is valid from nbf (here in the future), iat (in the past) is only the
      // time of signing
      claims["nbf"] = Value::from(now_i + 500);
      claims["iat"] = Value::from(now_i - 500);
    }
    _ => claims["vc"]["credentialSubject"]["id"] = "did:sim:anothersubject".into(),
  }
  // "nbf_and_iat" is a well-formed credential; its ground truth is what the claims denote
  let truth = if kind == "nbf_and_iat" {
    serde_json::json!({
      "@context": "https://www.w3.org/2018/credentials/v1",
      "id": claims["jti"],
      "type": ["VerifiableCredential"],
      "credentialSubject": {"id": "did:sim:subject", "crafted": step},
      "issuer": p.did,
      "issuanceDate": crate::core::time::rfc3339(now_i + 500),
    })
  } else if kind == "base_context_not_first" {
    serde_json::json!({
      "@context": claims["vc"]["@context"],
      "id": claims["jti"],
      "type": ["VerifiableCredential"],
      "credentialSubject": {"id": "did:sim:subject", "crafted": step},
      "issuer": p.did,
      "issuanceDate": crate::core::time::rfc3339(now_i - 100),
    })
  } else {
    Value::Null
  };
  if let Ok(s) = sign_raw(p, &frag, claims.to_string().as_bytes(), &JwsSignatureOptions::default()) {
    ctx::trace(format!("step {step}: I{i} signs crafted credential claims ({kind})"));
    w.creds.push(CredToken {
      s,
      issuer: i,
      kid: format!("{}#{frag}", p.did),
      nonce: None,
      truth,
      custom: None,
      issued_index: None,
      crafted: Some(kind).filter(|k| *k != "nbf_and_iat" && *k != "base_context_not_first"),
    });
  }
}

fn present(w: &mut World, step: usize) {
  let hi = ctx::choose(w.n_holders);
  let h = w.holder(hi);
  let now_h = w.clock.enter(w.parties[h].skew);
  let p = &w.parties[h];
  if p.methods.is_empty() {
    return;
  }
  let (frag, _) = p.methods[ctx::choose(p.methods.len())].clone();
  let creds: Vec<String> = w
    .creds
    .iter()
    .filter(|_| ctx::choose(2) == 0)
    .take(3)
    .map(|c| c.s.clone())
    .collect();
  let mut pj = serde_json::json!({
    "@context": "https://www.w3.org/2018/credentials/v1",
    "type": "VerifiablePresentation",
    "verifiableCredential": creds,
    "holder": p.did,
  });
  if ctx::choose(2) == 0 {
    pj["id"] = format!("https://pres.example/{step}").into();
  }
  let Ok(pres) = Presentation::<Jwt>::from_json_value(pj) else { return };
  let truth = serde_json::to_value(&pres).unwrap();
  let exp: Option<i64> = match ctx::choose(4) {
    0 => None,
    1 => Some(now_h + 1 + ctx::choose(4) as i64),
    2 => Some(now_h + 30),
    _ => Some(now_h + 600),
  };
  let nbf: Option<i64> = match ctx::choose(4) {
    0 => None,
    1 => Some(now_h),
    2 => Some(now_h - 30),
    _ => Some(now_h + ctx::choose(5) as i64),
  };
  let aud = if ctx::choose(2) == 0 { Some("https://verifier.example/".to_owned()) } else { None };
  let custom: Option<Object> = if ctx::chance(1, 3) {
    let mut o = Object::new();
    o.insert("purpose".into(), Value::from("login"));
    Some(o)
  } else {
    None
  };
  let popts = JwtPresentationOptions {
    expiration_date: exp.map(ts),
    issuance_date: nbf.map(ts),
    audience: aud.as_ref().map(|a| Url::parse(a).unwrap()),
    custom_claims: custom.clone(),
  };
  let mut sopts = JwsSignatureOptions::default();
  let nonce = if ctx::choose(3) != 0 {
    let n = if ctx::chance(1, 10) { String::new() } else { format!("challenge{}", ctx::choose(1000)) };
    sopts = sopts.nonce(n.clone());
    Some(n)
  } else {
    None
  };
  // kid as full id (default) or as a bare fragment
  match ctx::choose(3) {
    0 => {}
    1 => {
      sopts = sopts.kid(format!("#{frag}"));
      ctx::stat("probe.kid_fragment");
    }
    _ => {
      sopts = sopts.kid(frag.clone());
      ctx::stat("probe.kid_fragment");
    }
  }
  let r = match &p.doc {
    AnyDoc::Core(d) => block_on(d.create_presentation_jwt(&pres, &p.storage, &frag, &sopts, &popts)),
    AnyDoc::Iota(d) => block_on(d.create_presentation_jwt(&pres, &p.storage, &frag, &sopts, &popts)),
  };
  if let Ok(j) = r {
    ctx::trace(format!("step {step}: H{hi} presents ({} credentials, kid #{frag}, nonce {nonce:?}, exp {exp:?}, nbf {nbf:?})", creds.len()));
    w.press.push(PresToken {
      s: j.as_str().to_owned(),
      holder: hi,
      nonce,
      truth,
      aud,
      exp,
      nbf,
      custom: custom.map(|o| serde_json::to_value(o).unwrap()),
      crafted: None,
    });
  }
}

/// The holder signs hand-made presentation claims that carry one defect (duplicated values disagreeing, numeric date
/// out of range, issuer that is not a DID).
fn present_crafted(w: &mut World, step: usize) {
  let hi = ctx::choose(w.n_holders);
  let h = w.holder(hi);
  w.clock.enter(w.parties[h].skew);
  let p = &w.parties[h];
  if p.methods.is_empty() {
    return;
  }
  let (frag, _) = p.methods[ctx::choose(p.methods.len())].clone();
  let kind = [
    "holder_mismatch",
    "id_mismatch",
    "exp_out_of_range",
    "iss_not_did",
    "vp_id_without_jti",
    "nbf_and_iat",
    "kid_names_no_did_of_the_document",
    "issuance_time_not_an_integer",
    "iss_spelled_with_whitespace_or_uppercase_scheme",
    "holder_object_mismatch",
    "iss_is_the_controller_of_the_document",
    "holder_is_a_did_url_of_the_issuer",
    "aud_is_an_array_of_two",
  ][ctx::choose(13)];
  let now_h = w.clock.now + w.parties[h].skew;
  let mut claims = serde_json::json!({
    "iss": p.did,
    "vp": {"@context": "https://www.w3.org/2018/credentials/v1", "type": "VerifiablePresentation", "verifiableCredential": []},
    "crafted": step,
  });
  match kind {
    "holder_mismatch" => claims["vp"]["holder"] = "did:sim:someoneelse".into(),
    // the duplicate is the issuer's DID followed by a fragment, path or query: a DID URL, not the DID the claim names
    "holder_is_a_did_url_of_the_issuer" => {
      claims["vp"]["holder"] = format!("{}{}", p.did, ["#key-of-somebody-else", "/agents/7", "?service=wallet"][ctx::choose(3)]).into()
    }
    "holder_object_mismatch" => claims["vp"]["holder"] = serde_json::json!({"id": "did:sim:someoneelse", "name": "Somebody Else"}),
    // RFC 7519 allows several audiences; the claim model of the library (and the value it returns) has one URL: a
    // presentation signed for two audiences cannot come back as "the audience that was signed", it has to be refused
    "aud_is_an_array_of_two" => {
      claims["aud"] = serde_json::json!([format!("https://verifier{}.example/", ctx::choose(3)), "https://somebody-else.example/"])
    }
    "id_mismatch" => {
      claims["jti"] = "https://pres.example/a".into();
      claims["vp"]["id"] = "https://pres.example/b".into();
    }
    "exp_out_of_range" => claims["exp"] = Value::from(1_000_000_000_000_000i64),
    "vp_id_without_jti" => claims["vp"]["id"] = "https://pres.example/only-in-vp".into(),
    "nbf_and_iat" => {
      claims["nbf"] = Value::from(now_h + 300);
      claims["iat"] = Value::from(now_h - 300);
    }
    "kid_names_no_did_of_the_document" => {}
    // the holder presents under the DID of its document's CONTROLLER: well-formed claims, but not this document's id
    "iss_is_the_controller_of_the_document" => claims["iss"] = "did:sim:controller-of-the-holder".into(),
    "iss_spelled_with_whitespace_or_uppercase_scheme" => claims["iss"] = spelled_variant(&p.did).into(),
    "issuance_time_not_an_integer" => {
      // a NumericDate far in the future that is not a JSON integer (RFC 7519 allows fractions), or an integer nbf in
      // the future next to an ill-typed iat: the token is not yet valid, or not well formed - never acceptable
      match ctx::choose(3) {
        0 => claims["nbf"] = serde_json::json!(4102444800.5f64),
        1 => {
          claims["nbf"] = Value::from(now_h + 1_000_000);
          claims["iat"] = serde_json::json!(1700000000.25f64);
        }
        _ => claims["nbf"] = Value::from("4102444800"),
      }
    }
    _ => claims["iss"] = "https://holder.example/".into(),
  }
  let mut sopts = JwsSignatureOptions::default();
  if kind == "kid_names_no_did_of_the_document" {
    // a Byzantine holder signs with its own key but writes a kid whose part before '#' is NOT the document's DID
    // (another DID, or a string that is no DID at all) while the fragment is that of its own method
    let kid = match ctx::choose(5) {
      0 => format!("did:Example:someone-else#{frag}"),
      1 => format!("did:sim:#{frag}"),
      2 => format!("{}+evil#{frag}", p.did),
      3 => format!("did::x#{frag}"),
      _ => format!("did:sim:someoneelse#{frag}"),
    };
    sopts = sopts.kid(kid);
    ctx::stat("fault.holder.kid_with_foreign_or_malformed_did");
  }
  let nonce = if ctx::choose(2) == 0 {
    let n = if ctx::chance(1, 10) { String::new() } else { format!("challenge{}", ctx::choose(1000)) };
    sopts = sopts.nonce(n.clone());
    Some(n)
  } else {
    None
  };
  if let Ok(s) = sign_raw(p, &frag, claims.to_string().as_bytes(), &sopts) {
    ctx::trace(format!("step {step}: H{hi} signs crafted presentation claims ({kind})"));
    w.press.push(PresToken {
      s,
      holder: hi,
      nonce,
      truth: Value::Null,
      aud: None,
      exp: None,
      // well-formed when both nbf and iat are present: the presentation is valid from nbf
      nbf: Some(now_h + 300).filter(|_| kind == "nbf_and_iat"),
      custom: None,
      crafted: Some(kind),
    });
  }
}

// ---------------------------------------------------------------------------------------------------------------
// Issuer / holder document changes
// ---------------------------------------------------------------------------------------------------------------

fn change_document(w: &mut World, step: usize, who: usize) {
  w.clock.enter(w.parties[who].skew);
  let is_issuer = who < w.n_issuers;
  match ctx::choose(if is_issuer { 5 } else { 3 }) {
    0 => {
      // rotate: purge a method and generate a new one under the SAME fragment (old tokens keep their kid)
      if let Some((frag, scope)) = w.parties[who].methods.first().cloned() {
        if purge(&mut w.parties[who], &frag) {
          let _ = w.parties[who].gen_method(&frag, scope);
          ctx::stat("probe.rotation");
          ctx::trace(format!("step {step}: party {who} rotates key under fragment #{frag}"));
        }
      }
    }
    1 => {
      let n = w.parties[who].methods.len();
      let scope = if is_issuer { REL_ASSERT } else { REL_AUTH };
      let _ = w.parties[who].gen_method(&format!("k{step}x{n}"), if ctx::choose(2) == 0 { scope } else { None });
      ctx::trace(format!("step {step}: party {who} adds a method"));
    }
    2 => {
      // attach / detach a relationship of a general-purpose method (scope membership changes)
      let general: Vec<String> = w.parties[who].methods.iter().filter(|m| m.1.is_none()).map(|m| m.0.clone()).collect();
      if let Some(f) = general.first() {
        let rel = [
          identity_verification::MethodRelationship::Authentication,
          identity_verification::MethodRelationship::AssertionMethod,
        ][ctx::choose(2)];
        let attach = ctx::choose(2) == 0;
        match &mut w.parties[who].doc {
          AnyDoc::Core(d) => {
            let _ = if attach { d.attach_method_relationship(f.as_str(), rel) } else { d.detach_method_relationship(f.as_str(), rel) };
          }
          AnyDoc::Iota(d) => {
            let _ = if attach { d.attach_method_relationship(f.as_str(), rel) } else { d.detach_method_relationship(f.as_str(), rel) };
          }
        }
        ctx::trace(format!("step {step}: party {who} {} #{f} {rel:?}", if attach { "attaches" } else { "detaches" }));
      }
    }
    _ => {
      // revoke / unrevoke
      let services: Vec<String> = w.cur_bitmaps[who].keys().cloned().collect();
      if services.is_empty() {
        return;
      }
      let sid = services[ctx::choose(services.len())].clone();
      let n = 1 + ctx::choose(3);
      let batch: Vec<u32> = (0..n).map(|_| ctx::choose(w.next_index.max(2) as usize) as u32).collect();
      let unrevoke = ctx::choose(4) == 0;
      let r = match (&mut w.parties[who].doc, unrevoke) {
        (AnyDoc::Core(d), false) => d.revoke_credentials(sid.as_str(), &batch).is_ok(),
        (AnyDoc::Core(d), true) => d.unrevoke_credentials(sid.as_str(), &batch).is_ok(),
        (AnyDoc::Iota(d), false) => d.revoke_credentials(sid.as_str(), &batch).is_ok(),
        (AnyDoc::Iota(d), true) => d.unrevoke_credentials(sid.as_str(), &batch).is_ok(),
      };
      if r {
        let m = w.cur_bitmaps[who].get_mut(&sid).unwrap();
        for b in &batch {
          if unrevoke {
            m.remove(b);
          } else {
            m.insert(*b);
          }
        }
        ctx::trace(format!("step {step}: I{who} {} {batch:?} in {sid}", if unrevoke { "unrevokes" } else { "revokes" }));
      }
    }
  }
  // publish now, or leave the change unpublished for a while (the ledger then lags behind the owner)
  if ctx::choose(4) != 0 {
    w.publish(who);
  }
}

// ---------------------------------------------------------------------------------------------------------------
// Network / adversary
// ---------------------------------------------------------------------------------------------------------------

/// `%HH` at the end of the DID part, or directly before `/`, `?` or `#` (harness-own scan).
fn octet_before_end_or_delimiter(s: &str) -> bool {
  let b = s.as_bytes();
  let did_end = b.iter().position(|c| matches!(c, b'/' | b'?' | b'#')).unwrap_or(b.len());
  (0..b.len()).filter(|i| b[*i] == b'%').any(|i| match b.get(i + 3) {
    None => i + 3 == b.len() && i < did_end,
    Some(c) => matches!(c, b'/' | b'?' | b'#'),
  })
}

#[derive(Debug, Clone, PartialEq)]
enum Move {
  Intact,
  BitFlip,
  Truncate,
  ResignOwnKidVictim,
  ResignOwnKidOwn,
  KidSwap,
  Splice,
  AlgChange,
}

fn b64(bytes: &[u8]) -> String {
  crate::core::b64::encode(bytes)
}

/// Applies a network fault or adversary move to a compact token. `other` is another honest token (for splicing).
fn deliver(w: &World, token: &str, other: Option<&str>, victim_kid: &str) -> (String, Move) {
  let mv = match ctx::weighted(&[12, 3, 1, 2, 1, 2, 1, 1]) {
    0 => Move::Intact,
    1 => Move::BitFlip,
    2 => Move::Truncate,
    3 => Move::ResignOwnKidVictim,
    4 => Move::ResignOwnKidOwn,
    5 => Move::KidSwap,
    6 => Move::Splice,
    _ => Move::AlgChange,
  };
  let parts: Vec<&str> = token.split('.').collect();
  if parts.len() != 3 {
    return (token.to_owned(), Move::Intact);
  }
  let adv = &w.parties[w.adversary()];
  let out = match mv {
    Move::Intact => token.to_owned(),
    Move::BitFlip => {
      ctx::stat("fault.net.bitflip");
      let (s, pos, bit) = flip_bit(token);
      ctx::sched("bitflip", (pos * 8 + bit as usize) as u64);
      s
    }
    Move::Truncate => {
      ctx::stat("fault.net.truncate");
      let cut = ctx::choose(token.len());
      ctx::sched("trunc", cut as u64);
      token[..cut].to_owned()
    }
    Move::ResignOwnKidVictim | Move::ResignOwnKidOwn => {
      ctx::stat("fault.adversary.resign_own_key");
      ctx::sched("resign", 1);
      // the adversary signs the captured payload with its own key, claiming the victim's kid or its own
      let payload = b64url_decode(parts[1]).unwrap_or_default();
      let mut opts = JwsSignatureOptions::default();
      if mv == Move::ResignOwnKidVictim {
        opts = opts.kid(victim_kid.to_owned());
      }
      if let Some(n) = parse_compact(token).and_then(|p| p.header.get("nonce").and_then(|n| n.as_str().map(str::to_owned))) {
        opts = opts.nonce(n);
      }
      // sign with the adversary's key that shares the victim's fragment when there is one
      let frag = if victim_kid.ends_with("#auth") || victim_kid.ends_with("auth") { "auth" } else { "adv" };
      sign_raw(adv, frag, &payload, &opts).unwrap_or_else(|_| token.to_owned())
    }
    Move::KidSwap => {
      ctx::stat("fault.adversary.kid_swap");
      ctx::sched("kidswap", 1);
      match parse_compact(token) {
        Some(mut p) => {
          let new_kid = match ctx::choose(4) {
            0 | 1 => format!("{}#adv", adv.did),
            2 => format!("{}#other", did_of_url(victim_kid)),
            _ => {
              // a kid that ends in a percent-encoded octet (legal DID syntax), with or without a fragment
              ctx::stat("fault.adversary.kid_ending_in_percent_encoded_octet");
              match ctx::choose(4) {
                0 => format!("{}%41", did_of_url(victim_kid)),
                1 => "did:sim:abc%20".to_owned(),
                2 => format!("{}#key%2D", did_of_url(victim_kid)),
                _ => format!("{}%00", victim_kid),
              }
            }
          };
          p.header["kid"] = new_kid.into();
          format!("{}.{}.{}", b64(p.header.to_string().as_bytes()), parts[1], parts[2])
        }
        None => token.to_owned(),
      }
    }
    Move::Splice => {
      ctx::stat("fault.adversary.splice");
      ctx::sched("splice", 1);
      match other {
        Some(o) => {
          let op: Vec<&str> = o.split('.').collect();
          if op.len() == 3 {
            format!("{}.{}.{}", parts[0], op[1], parts[2])
          } else {
            token.to_owned()
          }
        }
        None => token.to_owned(),
      }
    }
    Move::AlgChange => {
      ctx::stat("fault.adversary.alg_change");
      ctx::sched("alg", 1);
      match parse_compact(token) {
        Some(mut p) => {
          p.header["alg"] = ["ES256", "none", "HS256"][ctx::choose(3)].into();
          format!("{}.{}.{}", b64(p.header.to_string().as_bytes()), parts[1], parts[2])
        }
        None => token.to_owned(),
      }
    }
  };
  let mv = if out == token { Move::Intact } else { mv };
  (out, mv)
}

// ---------------------------------------------------------------------------------------------------------------
// Resolution of a document for a validation
// ---------------------------------------------------------------------------------------------------------------

struct Supplied {
  doc: CoreDocument,
  json: Value,
  did: String,
  version: usize,
}

fn resolve(w: &mut World, party: usize) -> Option<Supplied> {
  let did = w.parties[party].did.clone();
  let versions = w.ledger.latest(&did)?;
  let lag = draw_lag(versions, 2);
  if lag > 0 {
    w.nontrivial = true;
  }
  let (v, r) = w.ledger.resolve(&did, lag)?;
  let doc = r.ok()?;
  let json = serde_json::to_value(&doc).unwrap();
  // the resolved document must be the published one (ground truth)
  let truth = &w.ledger.entries[&did][v - 1].truth;
  if &json != truth {
    ctx::stat("observation.resolved_differs_from_published");
  }
  Some(Supplied { doc, json, did, version: v })
}

// ---------------------------------------------------------------------------------------------------------------
// C02: credential validation
// ---------------------------------------------------------------------------------------------------------------

fn scope_choices() -> Option<Scope> {
  match ctx::weighted(&[5, 2, 1, 1]) {
    0 => None,
    1 => Some(REL_ASSERT),
    2 => Some(REL_AUTH),
    _ => Some(None),
  }
}

fn validate_credential(w: &mut World, step: usize) {
  if w.creds.is_empty() {
    return;
  }
  let t = w.creds[ctx::choose(w.creds.len())].clone();
  let other = w.creds[ctx::choose(w.creds.len())].s.clone();
  let (delivered, mv) = deliver(w, &t.s, Some(&other), &t.kid);
  // which issuer document the verifier supplies
  let supply_party = match ctx::weighted(&[10, 1, 1]) {
    0 => t.issuer,
    1 => (t.issuer + 1) % w.n_issuers.max(1),
    _ => w.adversary(),
  };
  let Some(sup) = resolve(w, supply_party) else { return };
  // ---- options ----
  let mut vopts = JwsVerificationOptions::default();
  let opt_nonce: Option<String> = match ctx::weighted(&[12, 2, 2, 1, 1]) {
    0 => t.nonce.clone(),
    1 => Some("othernonce".to_owned()),
    2 => None,
    4 => super::whitespace_twin(&t.nonce),
    _ => Some(String::new()), // the empty string is a nonce; an absent nonce is not
  };
  if let Some(n) = &opt_nonce {
    vopts = vopts.nonce(n.clone());
  }
  let scope = scope_choices();
  if let Some(s) = scope {
    vopts = vopts.method_scope(to_scope(s));
  }
  let method_override: Option<String> = match ctx::weighted(&[8, 1, 1, 1]) {
    0 => None,
    1 => Some(t.kid.clone()),
    2 => {
      // another method of the supplied document
      let m = crate::engines::docmodel::ModelDoc::from_json(&sup.json);
      let ids = m.methods(None);
      ids.into_iter().find(|i| *i != t.kid)
    }
    _ => Some(format!("{}#adv", w.parties[w.adversary()].did)),
  };
  if let Some(m) = &method_override {
    ctx::stat("probe.method_id_override");
    vopts = vopts.method_id(DIDUrl::parse(m).unwrap());
  }
  let issuance = t.truth.get("issuanceDate").and_then(|v| v.as_str()).and_then(crate::core::time::parse_rfc3339_z);
  let expiry = t.truth.get("expirationDate").and_then(|v| v.as_str()).and_then(crate::core::time::parse_rfc3339_z);
  // verifier clock: usually global time + skew; sometimes stepped exactly onto a boundary second
  let verifier_skew = ctx::range(-3, 3);
  let mut v_now = w.clock.now + verifier_skew;
  if ctx::chance(1, 5) {
    ctx::stat("fault.clock.boundary");
    let base = if ctx::choose(2) == 0 { expiry.or(issuance) } else { issuance };
    if let Some(b) = base {
      v_now = b + ctx::range(-1, 1);
    }
  }
  ctx::set_clock(v_now);
  let _ = ctx::take_clock_reads();
  // options start from a fresh default value or from the application's long-lived one (built at the start of the run)
  let mut opts = if ctx::choose(2) == 0 {
    ctx::stat("probe.options_value_built_earlier");
    w.cred_default_opts.clone()
  } else {
    JwtCredentialValidationOptions::default()
  };
  let _ = ctx::take_clock_reads();
  let explicit_latest_issuance: Option<i64> = if ctx::chance(1, 3) { issuance.map(|i| i + ctx::range(-1, 1)) } else { None };
  let explicit_earliest_expiry: Option<i64> = if ctx::chance(1, 3) {
    Some(expiry.unwrap_or(v_now) + ctx::range(-1, 1))
  } else {
    None
  };
  if let Some(b) = explicit_latest_issuance {
    opts = opts.latest_issuance_date(ts(b));
  }
  if let Some(b) = explicit_earliest_expiry {
    opts = opts.earliest_expiry_date(ts(b));
  }
  let status_mode = [StatusCheck::Strict, StatusCheck::SkipUnsupported, StatusCheck::SkipAll][ctx::weighted(&[4, 1, 1])];
  opts = opts.status_check(status_mode);
  let sh: Option<(String, SubjectHolderRelationship)> = if ctx::chance(1, 3) {
    let holder_url = if ctx::choose(3) == 0 {
      "did:sim:nottheholder".to_owned()
    } else {
      w.parties[w.holder(0)].did.clone()
    };
    let rel = [
      SubjectHolderRelationship::AlwaysSubject,
      SubjectHolderRelationship::SubjectOnNonTransferable,
      SubjectHolderRelationship::Any,
    ][ctx::choose(3)];
    Some((holder_url, rel))
  } else {
    None
  };
  if let Some((u, r)) = &sh {
    opts = opts.subject_holder_relationship(Url::parse(u).unwrap(), *r);
  }
  opts = opts.verification_options(vopts);
  let fail_fast = if ctx::choose(2) == 0 { FailFast::FirstError } else { FailFast::AllErrors };

  // ---- the call under test ----
  let fresh_validator = JwtCredentialValidator::with_signature_verifier(AnyVerifier);
  let validator = if ctx::choose(4) == 0 { &fresh_validator } else { &w.cred_validator };
  let res = ctx::catch(|| validator.validate::<_, Object>(&Jwt::new(delivered.clone()), &sup.doc, &opts, fail_fast));
  let reads = ctx::take_clock_reads();
  let res = match res {
    Ok(r) => r,
    Err(p) => {
      ctx::violation(
        "C02",
        "C02.error_not_crash",
        format!("validate/panic/{mv:?}"),
        format!("JwtCredentialValidator::validate panicked on a {mv:?} token: {p}"),
      );
      return;
    }
  };
  if reads.iter().any(|r| *r != v_now) {
    ctx::stat("observation.foreign_clock_read");
  }

  // ---- oracle: recompute every conjunct from ground truth ----
  let mutated = matches!(mv, Move::BitFlip | Move::Truncate);
  let parsed = parse_compact(&delivered);
  let mut pre: Option<&'static str> = None; // first false conjunct among 1-8 (variant name)
  let mut pre_label = "";
  let mut claims: Option<Value> = None;
  let mut method_did = String::new();
  match &parsed {
    None => {
      pre = Some("JwsDecodingError");
      pre_label = "decode";
    }
    Some(p) => {
      let header_nonce = p.header.get("nonce").and_then(|n| n.as_str());
      let kid = p.header.get("kid").and_then(|k| k.as_str());
      let method_id: Option<String> = match &method_override {
        Some(m) => Some(m.clone()),
        None => kid.filter(|k| super::is_did_url(k)).map(str::to_owned),
      };
      if header_nonce != opt_nonce.as_deref() {
        pre = Some("JwsDecodingError");
        pre_label = "nonce";
        ctx::stat("false.nonce");
      } else if method_id.is_none() {
        pre = Some("MethodDataLookupError");
        pre_label = "kid";
      } else if method_override.is_none() && kid.map(octet_before_end_or_delimiter).unwrap_or(false) {
        // a kid that is legal DID URL syntax but of a form the library's pinned parser does not support (a
        // percent-encoded octet at the end of the DID or directly before a delimiter): it names no method of the
        // supplied document either way; "cannot be read" and "another document" both identify that
        pre = Some("MethodDataLookupError|DocumentMismatch");
        pre_label = "kid";
        ctx::stat("false.kid_of_unsupported_form");
      } else {
        let mid = method_id.unwrap();
        method_did = did_of_url(&mid).to_owned();
        if method_did != sup.did {
          pre = Some("DocumentMismatch");
          pre_label = "document_mismatch";
          ctx::stat("false.document_mismatch");
        } else {
          match doc_method(&sup.json, &mid, scope) {
            None => {
              pre = Some("MethodDataLookupError");
              pre_label = "method_lookup";
              ctx::stat("false.method_lookup");
            }
            Some((_, jwk)) if !jwk.is_object() => {
              pre = Some("MethodDataLookupError");
              pre_label = "method_lookup";
            }
            Some((_, jwk)) => {
              let x = jwk.get("x").and_then(|x| x.as_str()).unwrap_or("");
              let alg = p.header.get("alg").and_then(|a| a.as_str());
              let key_alg = jwk.get("alg").and_then(|a| a.as_str());
              let signing_input = format!("{}.{}", p.header_b64, p.payload_b64);
              let sig_ok = alg == Some("EdDSA")
                && (key_alg.is_none() || key_alg == alg)
                && sig_truth(&w.refs(), signing_input.as_bytes(), &p.sig, x);
              if !sig_ok {
                pre = Some("Signature");
                pre_label = "signature";
                ctx::stat("false.signature");
              } else {
                claims = p.payload.clone();
                let crafted = w
                  .creds
                  .iter()
                  .find(|c| c.s.split('.').nth(1) == Some(p.payload_b64.as_str()))
                  .and_then(|c| c.crafted);
                match &claims {
                  None => {
                    pre = Some("CredentialStructure");
                    pre_label = "claims";
                  }
                  Some(c) if crafted == Some("iss_spelled_with_whitespace_or_uppercase_scheme") => {
                    let _ = c;
                    pre = Some("SignerUrl");
                    pre_label = "issuer_spelled_with_whitespace_or_uppercase_scheme";
                    ctx::stat("false.issuer_spelled_with_whitespace_or_uppercase_scheme");
                  }
                  Some(_) if crafted.is_some() => {
                    // duplicated values disagree / lack their registered claim / numeric date out of range
                    pre = Some("CredentialStructure");
                    pre_label = "claims_inconsistent";
                    ctx::stat("false.claims_inconsistent");
                  }
                  Some(c) => {
                    let iss = c.get("iss").map(|i| match i {
                      Value::String(s) => s.clone(),
                      o => o.get("id").and_then(|i| i.as_str()).unwrap_or("").to_owned(),
                    });
                    match iss {
                      Some(iss) if is_did_url_with_component(&iss) => {
                        // the issuer's DID followed by a path, query or fragment is not the method's DID; either
                        // variant identifies that
                        pre = Some("IdentifierMismatch|SignerUrl");
                        pre_label = "identifier_mismatch";
                        ctx::stat("false.identifier_mismatch_issuer_is_did_url");
                      }
                      Some(iss) if is_did(&iss) => {
                        if iss != method_did {
                          pre = Some("IdentifierMismatch");
                          pre_label = "identifier_mismatch";
                          ctx::stat("false.identifier_mismatch");
                        }
                      }
                      _ => {
                        pre = Some("SignerUrl");
                        pre_label = "issuer_not_did";
                      }
                    }
                  }
                }
              }
            }
          }
        }
      }
    }
  }
  // chained units (only meaningful when 1-8 hold; the signed payload is then an honest one: find its ground truth)
  let mut units: Vec<&'static str> = Vec::new();
  let mut unit_labels: Vec<&'static str> = Vec::new();
  let mut truth_cred: Option<&CredToken> = None;
  if pre.is_none() {
    // the token verified against a logged signing event, so its payload is byte-identical to an honest token's
    let pl = parsed.as_ref().map(|p| p.payload_b64.clone()).unwrap_or_default();
    truth_cred = w.creds.iter().find(|c| c.s.split('.').nth(1) == Some(pl.as_str()));
    if let Some(tc) = truth_cred {
      let c = &tc.truth;
      let iss_d = c.get("issuanceDate").and_then(|v| v.as_str()).and_then(crate::core::time::parse_rfc3339_z).unwrap_or(0);
      let exp_d = c.get("expirationDate").and_then(|v| v.as_str()).and_then(crate::core::time::parse_rfc3339_z);
      let latest = explicit_latest_issuance.unwrap_or(v_now);
      let earliest = explicit_earliest_expiry.unwrap_or(v_now);
      if iss_d > latest {
        units.push("IssuanceDate");
        unit_labels.push("issuance_date");
        ctx::stat("false.issuance_date");
      }
      if let Some(e) = exp_d {
        if e < earliest {
          units.push("ExpirationDate");
          unit_labels.push("expiration_date");
          ctx::stat("false.expiration_date");
        }
      }
      let types: Vec<&str> = match c.get("type") {
        Some(Value::Array(a)) => a.iter().filter_map(|v| v.as_str()).collect(),
        Some(Value::String(s)) => vec![s.as_str()],
        _ => vec![],
      };
      // the base context is the FIRST context entry (a single string counts as a one-element list)
      const BASE_CONTEXT: &str = "https://www.w3.org/2018/credentials/v1";
      let context_ok = match c.get("@context") {
        Some(Value::String(s)) => s == BASE_CONTEXT,
        Some(Value::Array(a)) => a.first().and_then(|v| v.as_str()) == Some(BASE_CONTEXT),
        _ => false,
      };
      if !context_ok {
        ctx::stat("false.structure.base_context_not_first");
      }
      if !types.contains(&"VerifiableCredential") || !context_ok {
        units.push("CredentialStructure");
        unit_labels.push("structure");
        ctx::stat("false.structure");
      }
      if let Some((holder_url, rel)) = &sh {
        let subj = c.get("credentialSubject").and_then(|s| s.get("id")).and_then(|i| i.as_str());
        let matches = subj == Some(holder_url.as_str());
        let non_transferable = c.get("nonTransferable").and_then(|v| v.as_bool()).unwrap_or(false);
        let ok = match rel {
          SubjectHolderRelationship::AlwaysSubject => matches,
          SubjectHolderRelationship::SubjectOnNonTransferable => matches || !non_transferable,
          SubjectHolderRelationship::Any => true,
        };
        if !ok {
          units.push("SubjectHolderRelationship");
          unit_labels.push("subject_holder");
          ctx::stat("false.subject_holder");
        }
      }
      if status_mode != StatusCheck::SkipAll {
        if let Some(st) = c.get("credentialStatus") {
          let ty = st.get("type").and_then(|t| t.as_str()).unwrap_or("");
          if ty != "RevocationBitmap2022" {
            if status_mode == StatusCheck::Strict {
              units.push("InvalidStatus");
              unit_labels.push("status.invalid");
              ctx::stat("false.status.invalid");
            }
          } else {
            let idx_s = st.get("revocationBitmapIndex").and_then(|v| v.as_str());
            let idx: Option<u32> = idx_s.and_then(|s| s.parse().ok());
            let sid_full = st.get("id").and_then(|v| v.as_str()).unwrap_or("");
            // the index query, if present, must agree
            let q_idx: Option<Option<u32>> = sid_full.split_once('?').map(|(_, rest)| {
              rest.split('#').next().unwrap_or("").split('&').find_map(|kv| kv.strip_prefix("index=")).and_then(|v| v.parse().ok())
            });
            let malformed = idx.is_none() || matches!(q_idx, Some(q) if q != idx);
            if malformed {
              units.push("InvalidStatus");
              unit_labels.push("status.invalid");
              ctx::stat("false.status.invalid");
            } else {
              let idx = idx.unwrap();
              let sid = format!("{}#{}", did_of_url(sid_full), sid_full.rsplit('#').next().unwrap_or(""));
              let version_model = w.bitmaps.get(&sup.did).and_then(|v| v.get(sup.version - 1));
              let service_in_doc = sup
                .json
                .get("service")
                .and_then(|s| s.as_array())
                .map(|a| {
                  a.iter().any(|s| {
                    // the issuer's bitmap service: that id AND the RevocationBitmap2022 type (alone or among several)
                    let is_bitmap_type = match s.get("type") {
                      Some(Value::String(t)) => t == "RevocationBitmap2022",
                      Some(Value::Array(ts)) => ts.iter().any(|t| t.as_str() == Some("RevocationBitmap2022")),
                      _ => false,
                    };
                    s.get("id").and_then(|i| i.as_str()) == Some(sid.as_str()) && is_bitmap_type
                  })
                })
                .unwrap_or(false);
              if !service_in_doc {
                units.push("ServiceLookupError");
                unit_labels.push("status.service_lookup");
                ctx::stat("false.status.service_lookup");
              } else if version_model.and_then(|m| m.get(&sid)).map(|s| s.contains(&idx)).unwrap_or(false) {
                units.push("Revoked");
                unit_labels.push("status.revoked");
                ctx::stat("false.status.revoked");
              }
            }
          }
        }
      }
    }
  }
  // ---- verify_signature against a LIST of trusted issuer documents: the document is chosen by the DID of the
  // method id, not by position; the outcome must be the one of conditions 1-8 for the document with that DID ----
  if pre_label != "document_mismatch" && pre_label != "decode" && pre_label != "issuer_spelled_with_whitespace_or_uppercase_scheme" && ctx::chance(1, 4) {
    let mut docs: Vec<CoreDocument> = Vec::new();
    for p in 0..w.parties.len() {
      if w.parties[p].did != sup.did && ctx::choose(2) == 0 {
        if let Some((_, Ok(d))) = w.ledger.resolve(&w.parties[p].did, 0) {
          docs.push(d);
        }
      }
    }
    let pos = ctx::choose(docs.len() + 1);
    docs.insert(pos, sup.doc.clone());
    ctx::stat("probe.verify_signature_multi_issuer");
    let r = ctx::catch(|| validator.verify_signature::<_, Object>(&Jwt::new(delivered.clone()), &docs, &opts.verification_options));
    match r {
      Err(p) => ctx::violation("C02", "C02.error_not_crash", "verify_signature/panic", format!("verify_signature panicked: {p}")),
      Ok(Ok(_)) => {
        if pre.is_some() {
          ctx::violation(
            "C02",
            "C02.accept_only_if_all_conditions",
            format!("verify_signature-accepted-despite/{pre_label}/{mv:?}"),
            format!("verify_signature over {} trusted documents (the matching one at position {pos}) accepted although [{pre_label}] is false", docs.len()),
          );
        }
      }
      Ok(Err(e)) => {
        let name: &'static str = (&e).into();
        match pre {
          None => ctx::stat("observation.verify_signature_rejected_although_conditions_hold"),
          Some(want) => {
            if !mutated && !want.split('|').any(|w| w == name) {
              ctx::violation(
                "C02",
                "C02.error_identifies_condition",
                format!("verify_signature/want={want}/got={name}"),
                format!("verify_signature over {} documents: first false condition is {pre_label} (expects {want}) but the error is {name}", docs.len()),
              );
            }
          }
        }
      }
    }
  }
  let truth_vector = format!(
    "{}|{}",
    if pre.is_some() { pre_label } else { "-" },
    unit_labels.join("+")
  );
  ctx::cover(format!("c02vec:{truth_vector}"));
  ctx::sched("tv", crate::core::tape::Fnv::of(truth_vector.as_bytes()));
  if mv != Move::Intact || pre.is_some() || !units.is_empty() {
    w.nontrivial = true;
  }
  let all_true = pre.is_none() && units.is_empty() && truth_cred.is_some();
  let got: Vec<&'static str> = match &res {
    Ok(_) => vec![],
    Err(e) => variant_names(&e.validation_errors),
  };
  ctx::trace(format!(
    "step {step}: validate cred of I{} ({mv:?}) against {} v{} scope={:?} override={} ff={fail_fast:?} -> {} ; expected false conjuncts [{truth_vector}]",
    t.issuer,
    sup.did.chars().take(24).collect::<String>(),
    sup.version,
    scope.map(crate::engines::stor::scope_name),
    method_override.is_some(),
    if res.is_ok() { "Ok".to_owned() } else { format!("Err{got:?}") },
  ));
  match &res {
    Ok(decoded) => {
      ctx::stat("probe.accepted");
      if !all_true {
        ctx::violation(
          "C02",
          "C02.accept_only_if_all_conditions",
          if pre_label == "issuer_spelled_with_whitespace_or_uppercase_scheme" {
            // one defect, one signature: independent of what else happened to the token on its way
            "accepted-despite/issuer_spelled_with_whitespace_or_uppercase_scheme".to_owned()
          } else {
            format!("accepted-despite/{truth_vector}/{mv:?}")
          },
          format!("credential accepted although these conditions are false: [{truth_vector}] (token {mv:?}, document v{} of {})", sup.version, sup.did),
        );
      } else if let Some(tc) = truth_cred {
        // fidelity: the credential returned is the one that was signed
        let got_cred = serde_json::to_value(&decoded.credential).unwrap();
        if got_cred != tc.truth {
          ctx::violation(
            "C02",
            "C02.returns_signed_credential",
            "returned-credential-differs",
            format!("returned credential {got_cred} differs from the signed one {}", tc.truth),
          );
        }
        // "no custom claims" is returned as an empty object: not a difference in what was signed
        let got_custom = decoded.custom_claims.as_ref().filter(|o| !o.is_empty()).map(|o| serde_json::to_value(o).unwrap());
        if got_custom != tc.custom {
          ctx::violation(
            "C02",
            "C02.returns_signed_credential",
            "returned-custom-claims-differ",
            format!("returned custom claims {got_custom:?} differ from the signed ones {:?}", tc.custom),
          );
        }
      }
    }
    Err(_) => {
      ctx::stat("probe.rejected");
      if all_true {
        // completeness is not part of the statement: observation only
        ctx::stat("observation.rejected_although_all_conditions_hold");
      }
      // error identification
      if pre_label == "issuer_spelled_with_whitespace_or_uppercase_scheme" {
        // (rejected for this or for another false condition: either way an error)
      } else if let Some(want) = pre {
        let ok = if mutated {
          // a bit flip / truncation may change header semantics in ways the harness model does not replicate;
          // any pre-signature or signature error identifies it
          got.len() == 1 && ["JwsDecodingError", "MethodDataLookupError", "DocumentMismatch", "Signature"].contains(&got[0])
        } else {
          got.len() == 1 && want.split('|').any(|w| w == got[0])
        };
        if !ok {
          ctx::violation(
            "C02",
            "C02.error_identifies_condition",
            format!("want={want}/got={}/{mv:?}", got.join("+")),
            format!("first false condition is {pre_label} (expects {want}) but errors are {got:?}"),
          );
        }
      } else if !units.is_empty() {
        let ok = match fail_fast {
          FailFast::AllErrors => {
            let mut a = got.clone();
            a.sort();
            let mut b = units.clone();
            b.sort();
            if units.len() > 1 {
              ctx::stat("probe.all_errors_multi");
            }
            a == b
          }
          FailFast::FirstError => got.len() == 1 && units.contains(&got[0]),
        };
        if !ok {
          ctx::violation(
            "C02",
            "C02.error_identifies_condition",
            format!("units/want={}/got={}/{fail_fast:?}", units.join("+"), got.join("+")),
            format!("false conditions {unit_labels:?} but errors are {got:?} ({fail_fast:?})"),
          );
        }
      }
    }
  }
}

// ---------------------------------------------------------------------------------------------------------------
// C03: presentation validation
// ---------------------------------------------------------------------------------------------------------------

fn validate_presentation(w: &mut World, step: usize) {
  if w.press.is_empty() {
    return;
  }
  let t = w.press[ctx::choose(w.press.len())].clone();
  let other = w.press[ctx::choose(w.press.len())].s.clone();
  let holder_party = w.holder(t.holder);
  let victim_kid = parse_compact(&t.s)
    .and_then(|p| p.header.get("kid").and_then(|k| k.as_str().map(str::to_owned)))
    .unwrap_or_default();
  let victim_kid_full = if victim_kid.starts_with("did:") && DIDUrl::parse(&victim_kid).is_ok() {
    victim_kid.clone()
  } else {
    // (a kid that is no DID URL at all: the verifier would name the holder's method of that fragment)
    format!("{}#{}", w.parties[holder_party].did, victim_kid.rsplit('#').next().unwrap_or(""))
  };
  let (delivered, mv) = deliver(w, &t.s, Some(&other), &victim_kid_full);
  let supply_party = match ctx::weighted(&[10, 1, 1]) {
    0 => holder_party,
    1 => w.holder((t.holder + 1) % w.n_holders),
    _ => w.adversary(),
  };
  let Some(sup) = resolve(w, supply_party) else { return };
  let mut vopts = JwsVerificationOptions::default();
  let opt_nonce: Option<String> = match ctx::weighted(&[12, 2, 2, 1, 1]) {
    0 => t.nonce.clone(),
    1 => Some("replayed-elsewhere".to_owned()),
    2 => None,
    4 => super::whitespace_twin(&t.nonce),
    _ => Some(String::new()), // the empty string is a nonce; an absent nonce is not
  };
  if let Some(n) = &opt_nonce {
    vopts = vopts.nonce(n.clone());
  }
  let scope = match ctx::weighted(&[5, 3, 1]) {
    0 => None,
    1 => Some(REL_AUTH),
    _ => Some(REL_ASSERT),
  };
  if let Some(s) = scope {
    vopts = vopts.method_scope(to_scope(s));
  }
  let method_override: Option<String> = match ctx::weighted(&[8, 1, 1]) {
    0 => None,
    1 => Some(victim_kid_full.clone()),
    _ => {
      let m = crate::engines::docmodel::ModelDoc::from_json(&sup.json);
      m.methods(None).into_iter().find(|i| *i != victim_kid_full)
    }
  };
  if let Some(m) = &method_override {
    vopts = vopts.method_id(DIDUrl::parse(m).unwrap());
  }
  let verifier_skew = ctx::range(-3, 3);
  let mut v_now = w.clock.now + verifier_skew;
  if ctx::chance(1, 4) {
    ctx::stat("fault.clock.boundary");
    if let Some(b) = if ctx::choose(2) == 0 { t.exp } else { t.nbf } {
      v_now = b + ctx::range(-1, 1);
    }
  }
  ctx::set_clock(v_now);
  let _ = ctx::take_clock_reads();
  let mut opts = if ctx::choose(2) == 0 {
    ctx::stat("probe.options_value_built_earlier");
    w.pres_default_opts.clone()
  } else {
    JwtPresentationValidationOptions::default()
  }
  .presentation_verifier_options(vopts);
  let _ = ctx::take_clock_reads();
  let explicit_earliest: Option<i64> = if ctx::chance(1, 4) { Some(t.exp.unwrap_or(v_now) + ctx::range(-1, 1)) } else { None };
  let explicit_latest: Option<i64> = if ctx::chance(1, 4) { Some(t.nbf.unwrap_or(v_now) + ctx::range(-1, 1)) } else { None };
  if let Some(b) = explicit_earliest {
    opts = opts.earliest_expiry_date(ts(b));
  }
  if let Some(b) = explicit_latest {
    opts = opts.latest_issuance_date(ts(b));
  }
  let fresh_validator = JwtPresentationValidator::with_signature_verifier(AnyVerifier);
  let validator = if ctx::choose(4) == 0 { &fresh_validator } else { &w.pres_validator };
  let res = ctx::catch(|| validator.validate::<_, Jwt, Object>(&Jwt::new(delivered.clone()), &sup.doc, &opts));
  let res = match res {
    Ok(r) => r,
    Err(p) => {
      ctx::violation(
        "C03",
        "C03.error_not_crash",
        format!("validate/panic/{mv:?}"),
        format!("JwtPresentationValidator::validate panicked on a {mv:?} token: {p}"),
      );
      return;
    }
  };
  // ---- oracle ----
  let mutated = matches!(mv, Move::BitFlip | Move::Truncate);
  let parsed = parse_compact(&delivered);
  let mut want: Option<&'static str> = None;
  let mut label = "-";
  let mut truth: Option<&PresToken> = None;
  match &parsed {
    None => {
      want = Some("PresentationJwsError");
      label = "decode";
    }
    Some(p) => {
      let header_nonce = p.header.get("nonce").and_then(|n| n.as_str());
      let kid = p.header.get("kid").and_then(|k| k.as_str());
      let query: Option<String> = method_override.clone().or(kid.map(str::to_owned));
      if header_nonce != opt_nonce.as_deref() {
        want = Some("PresentationJwsError");
        label = "nonce";
        ctx::stat("false.p.nonce");
      } else {
        match query.as_deref().and_then(|q| doc_method(&sup.json, q, scope)) {
          None => {
            want = Some("PresentationJwsError");
            label = "method_lookup";
            ctx::stat("false.p.method_lookup");
          }
          Some((_, jwk)) => {
            let x = jwk.get("x").and_then(|x| x.as_str()).unwrap_or("");
            let alg = p.header.get("alg").and_then(|a| a.as_str());
            let key_alg = jwk.get("alg").and_then(|a| a.as_str());
            let signing_input = format!("{}.{}", p.header_b64, p.payload_b64);
            let ok = jwk.is_object()
              && alg == Some("EdDSA")
              && (key_alg.is_none() || key_alg == alg)
              && sig_truth(&w.refs(), signing_input.as_bytes(), &p.sig, x);
            if !ok {
              want = Some("PresentationJwsError");
              label = "signature";
              ctx::stat("false.p.signature");
            } else {
              truth = w.press.iter().find(|c| c.s.split('.').nth(1) == Some(p.payload_b64.as_str()));
              match (&p.payload, truth) {
                (Some(c), Some(tp)) => {
                  let iss = c.get("iss").and_then(|i| i.as_str()).unwrap_or("");
                  if matches!(tp.crafted, Some("holder_object_mismatch") | Some("aud_is_an_array_of_two")) {
                    // the duplicate is of another JSON type than the claim model has: refused when the claims are read,
                    // i.e. before the issuer is compared with the supplied document
                    want = Some(if iss != sup.did { "PresentationStructure|DocumentMismatch" } else { "PresentationStructure" });
                    label = "structure";
                    ctx::stat("false.p.structure");
                  } else if tp.crafted == Some("issuance_time_not_an_integer") {
                    // the claims are ill-typed (refused when they are read) or denote a time in the future; the
                    // supplied document may be the wrong one on top: any of the false conditions may be named
                    want = Some(if iss != sup.did {
                      "IssuanceDate|PresentationStructure|DocumentMismatch"
                    } else {
                      "IssuanceDate|PresentationStructure"
                    });
                    label = "issuance_time_ill_typed_or_in_the_future";
                    ctx::stat("false.p.issuance_time_ill_typed");
                  } else if tp.crafted == Some("iss_spelled_with_whitespace_or_uppercase_scheme") {
                    want = Some("SignerUrl|DocumentMismatch|PresentationStructure");
                    label = "issuer_spelled_with_whitespace_or_uppercase_scheme";
                    ctx::stat("false.p.issuer_spelled_with_whitespace_or_uppercase_scheme");
                  } else if !is_did(iss) {
                    want = Some("SignerUrl");
                    label = "issuer_not_did";
                    ctx::stat("false.p.issuer_not_did");
                  } else if iss != sup.did {
                    want = Some("DocumentMismatch");
                    label = "document_mismatch";
                    ctx::stat("false.p.document_mismatch");
                  } else {
                    let earliest = explicit_earliest.unwrap_or(v_now);
                    let latest = explicit_latest.unwrap_or(v_now);
                    if tp.exp.map(|e| e < earliest).unwrap_or(false) {
                      want = Some("ExpirationDate");
                      label = "expiration_date";
                      ctx::stat("false.p.expiration_date");
                    } else if tp.nbf.map(|n| n > latest).unwrap_or(false) {
                      want = Some("IssuanceDate");
                      label = "issuance_date";
                      ctx::stat("false.p.issuance_date");
                    } else if tp.crafted.is_some() && !matches!(tp.crafted, Some("nbf_and_iat") | Some("kid_names_no_did_of_the_document") | Some("iss_is_the_controller_of_the_document")) {
                      // disagreeing duplicated values / numeric date outside years 0000-9999
                      want = Some("PresentationStructure");
                      label = "structure";
                      ctx::stat("false.p.structure");
                    }
                  }
                }
                _ => {
                  // a payload that is not one of the holders' presentations (e.g. a credential payload re-signed)
                  want = Some("PresentationStructure");
                  label = "structure";
                  ctx::stat("false.p.structure");
                }
              }
            }
          }
        }
      }
    }
  }
  ctx::cover(format!("c03vec:{label}/{}", if mv == Move::Intact { "intact" } else { "tampered" }));
  ctx::sched("tv3", crate::core::tape::Fnv::of(label.as_bytes()));
  if mv != Move::Intact || want.is_some() {
    w.nontrivial = true;
  }
  let got: Vec<&'static str> = match &res {
    Ok(_) => vec![],
    Err(e) => variant_names(&e.presentation_validation_errors),
  };
  ctx::trace(format!(
    "step {step}: validate presentation of H{} ({mv:?}) against {} v{} scope={:?} -> {} ; expected first false condition [{label}]",
    t.holder,
    sup.did.chars().take(24).collect::<String>(),
    sup.version,
    scope.map(crate::engines::stor::scope_name),
    if res.is_ok() { "Ok".to_owned() } else { format!("Err{got:?}") },
  ));
  match &res {
    Ok(decoded) => {
      ctx::stat("probe.accepted");
      match (want, truth) {
        (Some(_), _) | (None, None) => ctx::violation(
          "C03",
          "C03.accept_only_if_bound_to_holder",
          if label == "issuer_spelled_with_whitespace_or_uppercase_scheme" {
            "accepted-despite/issuer_spelled_with_whitespace_or_uppercase_scheme".to_owned()
          } else {
            format!("accepted-despite/{label}/{mv:?}")
          },
          format!("presentation accepted although condition [{label}] is false (token {mv:?}, holder document v{} of {})", sup.version, sup.did),
        ),
        (None, Some(tp)) => {
          let got_p = serde_json::to_value(&decoded.presentation).unwrap();
          let got_aud = decoded.aud.as_ref().map(|u| u.to_string());
          let got_exp = decoded.expiration_date.map(|t| t.to_unix());
          let got_nbf = decoded.issuance_date.map(|t| t.to_unix());
          let got_custom = decoded.custom_claims.as_ref().filter(|o| !o.is_empty()).map(|o| serde_json::to_value(o).unwrap());
          let crafted = tp.crafted.is_some();
          if (!crafted && (got_p != tp.truth || got_custom != tp.custom)) || got_aud != tp.aud || got_exp != tp.exp || got_nbf != tp.nbf {
            ctx::violation(
              "C03",
              "C03.returns_signed_presentation",
              "returned-values-differ",
              format!(
                "returned presentation/aud/exp/nbf/custom ({got_p}, {got_aud:?}, {got_exp:?}, {got_nbf:?}, {got_custom:?}) differ from the signed ones ({}, {:?}, {:?}, {:?}, {:?})",
                tp.truth, tp.aud, tp.exp, tp.nbf, tp.custom
              ),
            );
          }
        }
      }
    }
    Err(_) => {
      ctx::stat("probe.rejected");
      match want {
        None => ctx::stat("observation.rejected_although_all_conditions_hold"),
        Some(wv) => {
          let ok = if mutated {
            got.len() == 1 && ["PresentationJwsError", "PresentationStructure"].contains(&got[0])
          } else {
            got.len() == 1 && wv.split('|').any(|w| w == got[0])
          };
          if !ok {
            ctx::violation(
              "C03",
              "C03.error_identifies_condition",
              format!("want={wv}/got={}/{mv:?}", got.join("+")),
              format!("first false condition is {label} (expects {wv}) but errors are {got:?}"),
            );
          }
        }
      }
    }
  }
}

/// A Byzantine party publishes its own DID document with key material that is malformed for the algorithm it then
/// "signs" with (short / empty / oversized coordinates, wrong curve, wrong key type), issues a credential or a
/// presentation under that method and hands it to the verifier together with its own, correctly resolved document.
/// The signature condition is false, so the statement demands an error; a panic is a crash of the verifier.
fn byzantine_signer(w: &mut World, step: usize, prop: &str) {
  let adv = w.adversary();
  w.clock.enter(0);
  let n = w.parties[adv].methods.len() + step;
  let frag = format!("ec{n}");
  let coord = |len: usize| b64(&ctx::bytes(len));
  let (alg, jwk): (&str, Value) = match ctx::choose(7) {
    0 => ("ES256", serde_json::json!({"kty":"EC","crv":"P-256","x": coord(31), "y": coord(32)})),
    1 => ("ES256", serde_json::json!({"kty":"EC","crv":"P-256","x": "", "y": coord(32)})),
    2 => ("ES256K", serde_json::json!({"kty":"EC","crv":"secp256k1","x": coord(32), "y": coord(16)})),
    3 => ("ES256K", serde_json::json!({"kty":"EC","crv":"secp256k1","x": coord(33), "y": coord(33)})),
    4 => ("ES256", serde_json::json!({"kty":"EC","crv":"secp256k1","x": coord(32), "y": coord(32)})),
    5 => ("ES256", serde_json::json!({"kty":"OKP","crv":"Ed25519","x": coord(32)})),
    _ => ("EdDSA", serde_json::json!({"kty":"OKP","crv":"Ed25519","x": coord(7)})),
  };
  let Ok(j) = serde_json::from_value::<identity_jose::jwk::Jwk>(jwk.clone()) else { return };
  let did = w.parties[adv].did.clone();
  let Ok(m) = identity_verification::VerificationMethod::new_from_jwk(identity_did::CoreDID::parse(&did).unwrap(), j, Some(&frag)) else { return };
  let ok = match &mut w.parties[adv].doc {
    AnyDoc::Core(d) => d.insert_method(m, to_scope(None)).is_ok(),
    AnyDoc::Iota(d) => d.insert_method(m, to_scope(None)).is_ok(),
  };
  if !ok {
    return;
  }
  w.publish(adv);
  // the verifier resolves the latest version (the one that lists the method)
  let sup = match w.ledger.resolve(&did, 0) {
    Some((version, Ok(doc))) => Supplied {
      json: serde_json::to_value(&doc).unwrap(),
      doc,
      did: did.clone(),
      version,
    },
    _ => return,
  };
  let header = serde_json::json!({"alg": alg, "kid": format!("{did}#{frag}"), "typ": "JWT"});
  let now = w.clock.now;
  let claims = if prop == "C02" {
    serde_json::json!({"iss": did, "nbf": now - 10, "sub": "did:sim:subject",
      "vc": {"@context": "https://www.w3.org/2018/credentials/v1", "type": ["VerifiableCredential"], "credentialSubject": {"k": step}}})
  } else {
    serde_json::json!({"iss": did, "nbf": now - 10,
      "vp": {"@context": "https://www.w3.org/2018/credentials/v1", "type": "VerifiablePresentation", "verifiableCredential": []}})
  };
  let sig_len = if alg == "EdDSA" { 64 } else { [64usize, 64, 63, 0][ctx::choose(4)] };
  let token = format!(
    "{}.{}.{}",
    b64(header.to_string().as_bytes()),
    b64(claims.to_string().as_bytes()),
    b64(&ctx::bytes(sig_len))
  );
  ctx::set_clock(now);
  ctx::stat("fault.adversary.malformed_key_document");
  ctx::sched("malformed", crate::core::tape::Fnv::of(jwk.to_string().as_bytes()) & 0xff);
  w.nontrivial = true;
  let kind = format!("{alg}/{}/{}", jwk["kty"].as_str().unwrap_or(""), jwk["crv"].as_str().unwrap_or(""));
  if prop == "C02" {
    let validator = JwtCredentialValidator::with_signature_verifier(AnyVerifier);
    let opts = JwtCredentialValidationOptions::default().status_check(StatusCheck::SkipAll);
    let res = ctx::catch(|| validator.validate::<_, Object>(&Jwt::new(token.clone()), &sup.doc, &opts, FailFast::FirstError));
    match res {
      Err(p) => ctx::violation(
        "C02",
        "C02.error_not_crash",
        format!("validate/panic/malformed-key-document/{kind}"),
        format!("validating a credential of an issuer whose published key {jwk} is malformed panicked: {p}"),
      ),
      Ok(Ok(_)) => ctx::violation(
        "C02",
        "C02.accept_only_if_all_conditions",
        format!("accepted-despite/signature/malformed-key-document/{kind}"),
        format!("credential with a random signature accepted under malformed key {jwk}"),
      ),
      Ok(Err(e)) => {
        let got = variant_names(&e.validation_errors);
        ctx::trace(format!("step {step}: byzantine issuer ({kind}) -> Err{got:?}"));
        if got != vec!["Signature"] {
          ctx::violation(
            "C02",
            "C02.error_identifies_condition",
            format!("want=Signature/got={}/malformed-key-document", got.join("+")),
            format!("the only false condition is the signature (malformed key {jwk}) but errors are {got:?}"),
          );
        }
      }
    }
  } else {
    let validator = JwtPresentationValidator::with_signature_verifier(AnyVerifier);
    let opts = JwtPresentationValidationOptions::default();
    let res = ctx::catch(|| validator.validate::<_, Jwt, Object>(&Jwt::new(token.clone()), &sup.doc, &opts));
    match res {
      Err(p) => ctx::violation(
        "C03",
        "C03.error_not_crash",
        format!("validate/panic/malformed-key-document/{kind}"),
        format!("validating a presentation of a holder whose published key {jwk} is malformed panicked: {p}"),
      ),
      Ok(Ok(_)) => ctx::violation(
        "C03",
        "C03.accept_only_if_bound_to_holder",
        format!("accepted-despite/signature/malformed-key-document/{kind}"),
        format!("presentation with a random signature accepted under malformed key {jwk}"),
      ),
      Ok(Err(e)) => {
        let got = variant_names(&e.presentation_validation_errors);
        ctx::trace(format!("step {step}: byzantine holder ({kind}) -> Err{got:?}"));
        if got != vec!["PresentationJwsError"] {
          ctx::violation(
            "C03",
            "C03.error_identifies_condition",
            format!("want=PresentationJwsError/got={}/malformed-key-document", got.join("+")),
            format!("the only false condition is the signature (malformed key {jwk}) but errors are {got:?}"),
          );
        }
      }
    }
  }
}

pub fn run(prop: &str, _params: &Params) {
  let mut w = World {
    clock: Clock { now: ctx::BASE_TIME },
    ledger: Ledger::default(),
    parties: Vec::new(),
    n_issuers: 1 + ctx::choose(2),
    n_holders: 1 + ctx::choose(2),
    bitmaps: BTreeMap::new(),
    cur_bitmaps: Vec::new(),
    creds: Vec::new(),
    press: Vec::new(),
    next_index: 0,
    nontrivial: false,
    cred_validator: JwtCredentialValidator::with_signature_verifier(AnyVerifier),
    pres_validator: JwtPresentationValidator::with_signature_verifier(AnyVerifier),
    cred_default_opts: {
      ctx::set_clock(ctx::BASE_TIME);
      JwtCredentialValidationOptions::default()
    },
    pres_default_opts: JwtPresentationValidationOptions::default(),
  };
  let _ = ctx::take_clock_reads();
  // ---- setup (fault-free) ----
  for i in 0..w.n_issuers {
    let mut p = Party::new("issuer", ctx::choose(2) == 0, i);
    p.skew = ctx::range(-5, 5);
    w.clock.enter(p.skew);
    let _ = p.gen_method("sign", REL_ASSERT);
    if ctx::choose(2) == 0 {
      let _ = p.gen_method("gen", None);
      if let (AnyDoc::Core(d), true) = (&mut p.doc, ctx::choose(2) == 0) {
        let _ = d.attach_method_relationship("gen", identity_verification::MethodRelationship::AssertionMethod);
      }
    }
    w.parties.push(p);
    w.cur_bitmaps.push(BTreeMap::new());
  }
  // C03: a holder document may list a method of another DID that shares the fragment of the holder's own method and
  // precedes it in the document (the adversary's did:sim:adversary0#auth); kid / method id must still select by DID
  let list_foreign_same_fragment = prop == "C03" && ctx::choose(3) == 0;
  let mut adversary_early: Option<Party> = None;
  if list_foreign_same_fragment {
    let mut a = Party::new("adversary", false, 0);
    w.clock.enter(0);
    let _ = a.gen_method("adv", None);
    let _ = a.gen_method("other", None);
    let _ = a.gen_method("auth", None);
    adversary_early = Some(a);
  }
  for i in 0..w.n_holders {
    let mut p = Party::new("holder", ctx::choose(2) == 0, i);
    p.skew = ctx::range(-5, 5);
    w.clock.enter(p.skew);
    let _ = p.gen_method("auth", if list_foreign_same_fragment && ctx::choose(2) == 0 { None } else { REL_AUTH });
    if list_foreign_same_fragment {
      // reference the holder's own general-purpose #auth from authentication (when it is general purpose)
      match &mut p.doc {
        AnyDoc::Core(d) => {
          let _ = d.attach_method_relationship(format!("{}#auth", p.did).as_str(), identity_verification::MethodRelationship::Authentication);
        }
        AnyDoc::Iota(d) => {
          let _ = d.attach_method_relationship(format!("{}#auth", p.did).as_str(), identity_verification::MethodRelationship::Authentication);
        }
      }
      // The document as a deserialised one: the adversary's did:...#auth listed BEFORE the holder's own #auth (a
      // document its owner assembled elsewhere; the mutators would append it after).
      if let (Some(a), 0) = (&adversary_early, i) {
        if let Some(m) = a.doc.core().resolve_method("auth", None) {
          let mj = serde_json::to_value(m).unwrap();
          let mut dj = serde_json::to_value(p.doc.core()).unwrap();
          let key = if dj.get("verificationMethod").is_some() && ctx::choose(2) == 0 { "verificationMethod" } else { "authentication" };
          let mut arr = dj.get(key).and_then(|a| a.as_array().cloned()).unwrap_or_default();
          arr.insert(0, mj);
          dj[key] = Value::Array(arr);
          if let Ok(core) = CoreDocument::from_json_value(dj) {
            p.doc = match &p.doc {
              AnyDoc::Core(_) => AnyDoc::Core(core),
              AnyDoc::Iota(_) => AnyDoc::Iota(identity_iota_core::IotaDocument::from(core)),
            };
            ctx::stat("probe.foreign_method_same_fragment_listed_first");
          }
        }
      }
    }
    if ctx::choose(2) == 0 {
      let _ = p.gen_method("alt", if ctx::choose(2) == 0 { REL_ASSERT } else { None });
    }
    // a holder document may name another DID as its controller (DID-core: who may change the document - not who it is)
    if let (AnyDoc::Core(d), 0) = (&mut p.doc, ctx::choose(3)) {
      if let Ok(c) = identity_did::CoreDID::parse("did:sim:controller-of-the-holder") {
        *d.controller_mut() = Some(identity_core::common::OneOrSet::new_one(c));
        ctx::stat("probe.holder_document_with_controller");
      }
    }
    w.parties.push(p);
  }
  if let Some(a) = adversary_early {
    w.parties.push(a);
  } else {
    let mut a = Party::new("adversary", false, 0);
    w.clock.enter(0);
    let _ = a.gen_method("adv", None);
    let _ = a.gen_method("other", None);
    let _ = a.gen_method("auth", None);
    w.parties.push(a);
  }
  let n = w.parties.len();
  for p in 0..n {
    w.publish(p); // first publication assigns real DIDs
  }
  // revocation services under the real DIDs
  for i in 0..w.n_issuers {
    let k = 1 + ctx::choose(2);
    for s in 0..k {
      let sid = format!("{}#rev{s}", w.parties[i].did);
      if let Ok(svc) = RevocationBitmap::new().to_service(DIDUrl::parse(&sid).unwrap()) {
        let ok = match &mut w.parties[i].doc {
          AnyDoc::Core(d) => d.insert_service(svc).is_ok(),
          AnyDoc::Iota(d) => d.insert_service(svc).is_ok(),
        };
        if ok {
          w.cur_bitmaps[i].insert(sid, BTreeSet::new());
        }
      }
    }
  }
  // a service of ANOTHER type whose endpoint happens to be a well-formed bitmap data URL: not a revocation service
  for i in 0..w.n_issuers {
    if ctx::choose(3) == 0 {
      let sid = format!("{}#notabitmap", w.parties[i].did);
      if let Ok(svc) = RevocationBitmap::new().to_service(DIDUrl::parse(&sid).unwrap()) {
        let mut sj = serde_json::to_value(&svc).unwrap();
        sj["type"] = if ctx::choose(2) == 0 { "LinkedDomains".into() } else { serde_json::json!(["CredentialRegistry", "SimBlob"]) };
        if let Ok(decoy) = identity_document::service::Service::from_json_value(sj) {
          let ok = match &mut w.parties[i].doc {
            AnyDoc::Core(d) => d.insert_service(decoy).is_ok(),
            AnyDoc::Iota(d) => d.insert_service(decoy).is_ok(),
          };
          if ok {
            ctx::stat("probe.non_bitmap_service_with_bitmap_endpoint");
          }
        }
      }
    }
  }
  // C03: a holder document may list a method that belongs to another DID (allowed) — the adversary's
  if prop == "C03" && ctx::choose(2) == 0 {
    let adv = w.adversary();
    let adv_method = w.parties[adv].doc.core().resolve_method("adv", None).cloned();
    if let Some(m) = adv_method {
      let h = w.holder(0);
      let ok = match &mut w.parties[h].doc {
        AnyDoc::Core(d) => d.insert_method(m, to_scope(REL_AUTH)).is_ok(),
        AnyDoc::Iota(d) => d.insert_method(m, to_scope(REL_AUTH)).is_ok(),
      };
      if ok {
        ctx::stat("probe.foreign_method_listed");
      }
    }
  }
  for p in 0..n {
    w.publish(p);
  }

  // ---- chaos ----
  let steps = if ctx::chance(1, 50) {
    ctx::stat("probe.long_history");
    40 + ctx::choose(40)
  } else {
    6 + ctx::choose(13)
  };
  for step in 0..steps {
    w.clock.advance(90);
    let weights: [u32; 6] = if prop == "C02" { [5, 0, 3, 8, 0, 1] } else { [2, 5, 2, 0, 8, 1] };
    match ctx::weighted(&weights) {
      5 => byzantine_signer(&mut w, step, prop),
      0 => {
        if prop == "C02" && ctx::chance(1, 6) {
          issue_crafted(&mut w, step)
        } else {
          issue(&mut w, step)
        }
      }
      1 => {
        if prop == "C03" && ctx::chance(1, 5) {
          present_crafted(&mut w, step)
        } else {
          present(&mut w, step)
        }
      }
      2 => {
        let who = if prop == "C02" {
          ctx::choose(w.n_issuers)
        } else {
          w.holder(ctx::choose(w.n_holders))
        };
        change_document(&mut w, step, who);
      }
      3 => validate_credential(&mut w, step),
      _ => validate_presentation(&mut w, step),
    }
    if ctx::has_violation() {
      break;
    }
  }
  if w.nontrivial {
    ctx::mark_nontrivial();
  }
}
