//! C01 / C08 — signed notices in all three JWS serialisations between signers (Ed25519 through the shipped storage,
//! ES256 / ES256K through a harness-side KMS stub) and a receiver, over a network with bit flips and a Byzantine
//! adversary; storage faults during signing; every verification goes through a recording verifier.

use super::b64url_decode;
use super::Clock;
use super::Party;
use crate::core::batch::Params;
use crate::core::ctx;
use crate::core::exec::block_on;
use crate::engines::stor::AnyDoc;
use identity_core::convert::FromJson;
use identity_did::CoreDID;
use identity_document::document::CoreDocument;
use identity_document::verifiable::JwsVerificationOptions;
use identity_ecdsa_verifier::EcDSAJwsVerifier;
use identity_eddsa_verifier::EdDSAJwsVerifier;
use identity_jose::jwk::Jwk;
use identity_jose::jws::CompactJwsEncoder;
use identity_jose::jws::CompactJwsEncodingOptions;
use identity_jose::jws::Decoder;
use identity_jose::jws::FlattenedJwsEncoder;
use identity_jose::jws::GeneralJwsEncoder;
use identity_jose::jws::JwsAlgorithm;
use identity_jose::jws::JwsHeader;
use identity_jose::jws::JwsVerifier;
use identity_jose::jws::Recipient;
use identity_jose::jws::SignatureVerificationError;
use identity_jose::jws::VerificationInput;
use identity_storage::JwkDocumentExt;
use identity_storage::JwkStorage;
use identity_storage::JwsSignatureOptions;
use identity_storage::KeyIdStorage;
use identity_storage::MethodDigest;
use identity_verification::MethodScope;
use identity_verification::VerificationMethod;
use serde_json::Value;
use std::cell::RefCell;

pub const RULE: &str = "One run = 2-3 signers (Ed25519 keys in the shipped JwkMemStore behind the fault-injecting wrapper; ES256 and \
  ES256K keys in a harness KMS stub) and a receiver. 3-10 notices are produced with the compact, flattened or general \
  encoder (1-3 co-signers added in tape-chosen arrival order) or through create_jws with tape-drawn JwsSignatureOptions; \
  payloads are binary / UTF-8 / with dots, quotes, backslashes and control characters, attached or detached, b64 true or \
  false; storage calls may fail while signing. Tokens are delivered intact, with one bit flipped in the protected, payload \
  or signature segment, truncated, spliced, with alg moved to the unprotected header, with both an embedded and a detached \
  payload, with the wrong detached payload, or with the signature stripped. The receiver decodes with the matching decoder \
  and verifies each signature through a recording verifier around the real EdDSA / ECDSA verifiers. Non-trivial: a fault, \
  adversary move or storage failure fired; distinct = distinct hashes of (serialisation, options, moves).";

pub fn probes(prop: &str, _tier: &str) -> Vec<String> {
  let mut v: Vec<&str> = vec![
    "probe.ser.compact",
    "probe.ser.flattened",
    "probe.ser.general",
    "probe.alg.EdDSA",
    "probe.alg.ES256",
    "probe.alg.ES256K",
    "probe.b64_false",
    "probe.b64_explicit_true",
    "probe.detached",
    "probe.verified_ok",
    "probe.general_multi_signer",
  ];
  if prop == "C01" {
    v.extend([
      "fault.net.bitflip.protected",
      "fault.net.bitflip.payload",
      "fault.net.bitflip.signature",
      "fault.net.truncate",
      "fault.adversary.splice",
      "fault.adversary.alg_to_unprotected",
      "fault.adversary.both_payloads",
      "fault.adversary.wrong_detached_payload",
      "fault.adversary.strip_signature",
      "probe.tampered_rejected",
      "probe.assembled_mixed_b64",
      "fault.adversary.header_names_other_ec_alg",
    ]);
  } else {
    v.extend([
      "fault.storage.fail_clean.sign",
      "fault.storage.fail_clean.get_key_id",
      "probe.retry_after_storage_fault_ok",
      "probe.create_jws_options",
      "probe.separation.other_key_rejected",
      "probe.separation.other_nonce_rejected",
      "probe.separation.scope_rejected",
      "probe.payload_needs_json_escape",
    ]);
  }
  v.into_iter().map(str::to_owned).collect()
}

// ------------------------------------------------------------------------------------------------------------------
// Recording verifier (wraps the real verifiers)
// ------------------------------------------------------------------------------------------------------------------

#[derive(Clone)]
struct VerifyRecord {
  alg: String,
  signing_input: Vec<u8>,
  signature: Vec<u8>,
  key: Value,
  ok: bool,
}

struct RecordingVerifier {
  log: RefCell<Vec<VerifyRecord>>,
}

impl JwsVerifier for RecordingVerifier {
  fn verify(&self, input: VerificationInput, public_key: &Jwk) -> Result<(), SignatureVerificationError> {
    let alg = input.alg;
    let si = input.signing_input.to_vec();
    let sig = input.decoded_signature.to_vec();
    let r = match alg {
      JwsAlgorithm::EdDSA => EdDSAJwsVerifier::default().verify(input, public_key),
      _ => EcDSAJwsVerifier::default().verify(input, public_key),
    };
    self.log.borrow_mut().push(VerifyRecord {
      alg: alg.name().to_owned(),
      signing_input: si,
      signature: sig,
      key: serde_json::to_value(public_key).unwrap_or(Value::Null),
      ok: r.is_ok(),
    });
    r
  }
}

// ------------------------------------------------------------------------------------------------------------------
// Signers
// ------------------------------------------------------------------------------------------------------------------

enum EcKey {
  P256(p256::ecdsa::SigningKey),
  K256(k256::ecdsa::SigningKey),
}

enum SignerKind {
  /// Ed25519 key held in the party's (fault-wrapped) storage
  Stored(Box<Party>),
  /// harness KMS stub
  Kms { key: EcKey, doc: CoreDocument },
}

struct Signer {
  kind: SignerKind,
  did: String,
  /// (fragment, scope is general?) of its signing methods
  fragment: String,
  alg: &'static str,
  jwk: Value,
}

struct SignEvent {
  signer: usize,
  signing_input: Vec<u8>,
  signature: Vec<u8>,
}

fn b64(b: &[u8]) -> String {
  crate::core::b64::encode(b)
}

fn new_kms_signer(n: usize, k256: bool) -> Signer {
  let pin_alg = ctx::choose(2) == 0;
  let did = format!("did:sim:kms{n}");
  let mut seed = ctx::bytes(32);
  seed[0] |= 1;
  seed[0] &= 0x7f;
  let (key, jwk, alg) = if k256 {
    let sk = k256::ecdsa::SigningKey::from_slice(&seed).expect("valid scalar");
    let pt = sk.verifying_key().to_encoded_point(false);
    let jwk = serde_json::json!({"kty":"EC","crv":"secp256k1","alg":"ES256K","x": b64(pt.x().unwrap()), "y": b64(pt.y().unwrap())});
    (EcKey::K256(sk), jwk, "ES256K")
  } else {
    let sk = p256::ecdsa::SigningKey::from_slice(&seed).expect("valid scalar");
    let pt = sk.verifying_key().to_encoded_point(false);
    let jwk = serde_json::json!({"kty":"EC","crv":"P-256","alg":"ES256","x": b64(pt.x().unwrap()), "y": b64(pt.y().unwrap())});
    (EcKey::P256(sk), jwk, "ES256")
  };
  let mut jwk = jwk;
  if !pin_alg {
    // a key that does not pin an algorithm: the header's alg alone decides which verification is attempted
    jwk.as_object_mut().unwrap().remove("alg");
  }
  let j: Jwk = serde_json::from_value(jwk.clone()).expect("EC JWK");
  let m = VerificationMethod::new_from_jwk(CoreDID::parse(&did).unwrap(), j, Some("ec")).expect("method");
  let doc = CoreDocument::builder(Default::default())
    .id(CoreDID::parse(&did).unwrap())
    .verification_method(m)
    .build()
    .expect("doc");
  Signer {
    kind: SignerKind::Kms { key, doc },
    did,
    fragment: "ec".to_owned(),
    alg,
    jwk,
  }
}

fn new_stored_signer(n: usize, clock: &Clock) -> Option<Signer> {
  let mut p = Party::new("signer", false, n);
  if ctx::choose(3) == 0 {
    // the IotaDocument twin of the storage-backed API, under a DID of its own (not the network placeholder)
    let did = format!("did:iota:{}:0x{:064x}", ["smr", "rms"][ctx::choose(2)], 0x5151_0000u64 + n as u64);
    p.doc = AnyDoc::Iota(identity_iota_core::IotaDocument::new_with_id(identity_iota_core::IotaDID::parse(&did).ok()?));
    p.did = did;
    p.iota = true;
    ctx::stat("probe.iota_document_signer");
  }
  clock.enter(0);
  p.gen_method("key", None).ok()?;
  if ctx::choose(2) == 0 {
    match &mut p.doc {
      AnyDoc::Core(d) => {
        let _ = d.attach_method_relationship("key", identity_verification::MethodRelationship::Authentication);
      }
      AnyDoc::Iota(d) => {
        let _ = d.attach_method_relationship(format!("{}#key", p.did).as_str(), identity_verification::MethodRelationship::Authentication);
      }
    }
  }
  if ctx::chance(1, 3) {
    // Key rotation under one fragment: the first #key was referenced from authentication and keyAgreement; it is
    // purged (key, key id, method and all its references) and a new #key is generated that is referenced from
    // authentication only (or from nothing).
    use identity_verification::MethodRelationship as R;
    let id = format!("{}#key", p.did);
    let url = identity_did::DIDUrl::parse(&id).ok()?;
    let reattach = ctx::choose(2) == 0;
    let st = &p.storage;
    let ok = match &mut p.doc {
      AnyDoc::Core(d) => {
        let _ = d.attach_method_relationship(id.as_str(), R::Authentication);
        let _ = d.attach_method_relationship(id.as_str(), R::KeyAgreement);
        block_on(d.purge_method(st, &url)).is_ok()
      }
      AnyDoc::Iota(d) => {
        let _ = d.attach_method_relationship(id.as_str(), R::Authentication);
        let _ = d.attach_method_relationship(id.as_str(), R::KeyAgreement);
        block_on(d.purge_method(st, &url)).is_ok()
      }
    };
    if !ok {
      return None;
    }
    p.methods.retain(|m| m.0 != "key");
    p.gen_method("key", None).ok()?;
    if reattach {
      match &mut p.doc {
        AnyDoc::Core(d) => {
          let _ = d.attach_method_relationship(id.as_str(), R::Authentication);
        }
        AnyDoc::Iota(d) => {
          let _ = d.attach_method_relationship(id.as_str(), R::Authentication);
        }
      }
    }
    ctx::stat("probe.signer_rotated_under_same_fragment");
  }
  // a second method for the separation checks
  p.gen_method("second", Some(1)).ok()?;
  // a document assembled elsewhere: keyAgreement REFERS to a method of another DID that shares the fragment of the
  // signer's own #key (which is not part of keyAgreement)
  if ctx::choose(3) == 0 {
    let mut dj = serde_json::to_value(p.doc.core()).unwrap();
    let mut arr = dj.get("keyAgreement").and_then(|a| a.as_array().cloned()).unwrap_or_default();
    if !arr.iter().any(|e| e.as_str().map(|s| s.ends_with("#key")).unwrap_or(false)) {
      arr.insert(0, Value::from("did:sim:elsewhere#key"));
      dj["keyAgreement"] = Value::Array(arr);
      if let Ok(core) = CoreDocument::from_json_value(dj) {
        p.doc = match &p.doc {
          AnyDoc::Core(_) => AnyDoc::Core(core),
          AnyDoc::Iota(_) => AnyDoc::Iota(identity_iota_core::IotaDocument::from(core)),
        };
        ctx::stat("probe.foreign_reference_sharing_signer_fragment");
      }
    }
  }
  let jwk = p
    .doc
    .core()
    .resolve_method(format!("{}#key", p.did).as_str(), None)
    .and_then(|m| m.data().public_key_jwk().cloned())
    .map(|j| serde_json::to_value(j).unwrap())?;
  Some(Signer {
    did: p.did.clone(),
    kind: SignerKind::Stored(Box::new(p)),
    fragment: "key".to_owned(),
    alg: "EdDSA",
    jwk,
  })
}

impl Signer {
  fn doc(&self) -> &CoreDocument {
    match &self.kind {
      SignerKind::Stored(p) => p.doc.core(),
      SignerKind::Kms { doc, .. } => doc,
    }
  }
  fn kid(&self) -> String {
    format!("{}#{}", self.did, self.fragment)
  }
  /// Signs through the storage seam (real memstore) or the KMS stub.
  fn sign(&self, input: &[u8]) -> Result<Vec<u8>, String> {
    match &self.kind {
      SignerKind::Stored(p) => {
        // (by full id: a bare fragment is ambiguous when another DID's method of that fragment is referenced)
        let method = p.doc.core().resolve_method(self.kid().as_str(), None).ok_or("no method")?;
        let digest = MethodDigest::new(method).map_err(|e| e.to_string())?;
        let key_id = block_on(p.storage.key_id_storage().get_key_id(&digest)).map_err(|e| e.to_string())?;
        let jwk: Jwk = serde_json::from_value(self.jwk.clone()).map_err(|e| e.to_string())?;
        block_on(p.storage.key_storage().sign(&key_id, input, &jwk)).map_err(|e| e.to_string())
      }
      SignerKind::Kms { key, .. } => Ok(match key {
        EcKey::P256(sk) => {
          use p256::ecdsa::signature::Signer as _;
          let s: p256::ecdsa::Signature = sk.sign(input);
          s.to_bytes().to_vec()
        }
        EcKey::K256(sk) => {
          use k256::ecdsa::signature::Signer as _;
          let s: k256::ecdsa::Signature = sk.sign(input);
          s.to_bytes().to_vec()
        }
      }),
    }
  }
}

// ------------------------------------------------------------------------------------------------------------------
// Notices
// ------------------------------------------------------------------------------------------------------------------

#[derive(Clone, Copy, PartialEq, Debug)]
enum Ser {
  Compact,
  Flattened,
  General,
}

#[derive(Clone)]
struct SigPart {
  signer: usize,
  protected_b64: String,
  protected: Value,
  unprotected: Option<Value>,
  signature: Vec<u8>,
}

#[derive(Clone)]
struct Notice {
  ser: Ser,
  wire: String,
  /// what a receiver has to pass as detached payload (already in the form that was signed)
  detached: Option<Vec<u8>>,
  b64: bool,
  raw_payload: Vec<u8>,
  /// the payload exactly as it appears in the signing input (b64url text if b64 else raw)
  signed_payload: Vec<u8>,
  parts: Vec<SigPart>,
  nonce: Option<String>,
  via_create_jws: bool,
  /// hand-assembled by the harness from two separately produced tokens (not an encoder output as a whole)
  assembled: bool,
}

/// A nonce: short, or (one in five) longer than any fixed-size comparison buffer is likely to be.
fn gen_nonce() -> String {
  if ctx::choose(5) == 0 {
    format!("session-{}-{}", "0123456789abcdef".repeat(4 + ctx::choose(3)), ctx::choose(1000))
  } else {
    format!("n{}", ctx::choose(1000))
  }
}

fn gen_payload(b64_flag: bool, ser: Ser, detached: bool) -> Vec<u8> {
  // binary payloads need base64url encoding unless they travel detached (then any bytes can be signed un-encoded)
  let kind = if b64_flag || (detached && ser != Ser::General) { ctx::choose(5) } else { 1 + ctx::choose(4) };
  let mut p: Vec<u8> = match kind {
    0 => {
      let mut b = ctx::bytes(1 + ctx::choose(40));
      // make sure some payloads are not valid UTF-8 (lone continuation / invalid lead bytes)
      if ctx::choose(2) == 0 {
        b.extend_from_slice(&[0xff, 0xfe, 0x80, 0xc0]);
      }
      b
    }
    1 => format!("notice {}", ctx::choose(10_000)).into_bytes(),
    2 => {
      // a JSON object; sometimes with a member that is called like a header parameter
      if ctx::choose(3) == 0 {
        format!("{{\"msg\":\"hello\",\"nonce\":\"payload-nonce-{}\"}}", ctx::choose(10)).into_bytes()
      } else {
        format!("{{\"msg\":\"hello\",\"n\":{}}}", ctx::choose(1000)).into_bytes()
      }
    }
    3 => format!("he said \"hi\" \\ back\\slash {}", ctx::choose(100)).into_bytes(),
    _ => format!("line\nbreak\ttab {} \u{1}", ctx::choose(100)).into_bytes(),
  };
  if ctx::choose(3) == 0 {
    p.extend_from_slice(b".with.dots");
  }
  // payloads are bytes: a few begin with the three bytes that some text tools call a byte order mark
  if kind != 2 && ctx::chance(1, 16) {
    let mut q = vec![0xEF, 0xBB, 0xBF];
    q.extend_from_slice(&p);
    p = q;
    ctx::stat("probe.payload_begins_with_bom_bytes");
  }
  // one payload in 150 is large, with sizes on both sides of the 64 KiB / 128 KiB marks
  if ctx::chance(1, 150) {
    let target = [65_535usize, 65_536, 65_537, 65_538, 98_304, 131_071, 131_073][ctx::choose(7)];
    ctx::stat("probe.large_payload");
    let filler = ctx::bytes(64);
    while p.len() < target {
      let take = (target - p.len()).min(filler.len());
      p.extend(filler[..take].iter().map(|b| if kind == 0 { *b } else { b'a' + (*b % 26) }));
    }
  }
  // an attached un-encoded payload must not contain '.' in the compact form (the encoder refuses it otherwise)
  if !b64_flag && !detached && ser == Ser::Compact {
    // CharSet::Default: printable ASCII without '.'
    p.retain(|b| (0x20..=0x7e).contains(b) && *b != b'.');
  }
  if p.is_empty() {
    p.push(b'x');
  }
  p
}

fn header_json(signer: &Signer, b64_flag: bool, explicit_b64_true: bool, nonce: &Option<String>, extra: bool) -> Value {
  // A Byzantine (or buggy) EC signer names the OTHER ECDSA algorithm in the header it signs; its key pins no alg.
  let mut alg = signer.alg;
  if signer.jwk.get("alg").is_none() && signer.alg != "EdDSA" && ctx::chance(1, 5) {
    alg = if signer.alg == "ES256" { "ES256K" } else { "ES256" };
    ctx::stat("fault.adversary.header_names_other_ec_alg");
  }
  let mut h = serde_json::json!({"alg": alg, "kid": signer.kid()});
  if !b64_flag {
    h["b64"] = false.into();
    h["crit"] = serde_json::json!(["b64"]);
  } else if explicit_b64_true {
    // legal and equivalent to leaving the parameter out: b64 spelled out as true (and marked critical)
    h["b64"] = true.into();
    h["crit"] = serde_json::json!(["b64"]);
  }
  if let Some(n) = nonce {
    h["nonce"] = n.clone().into();
  }
  if extra {
    h["typ"] = ["notice+jws", "application/notice+jws", "application/example;part=\"1/2\""][ctx::choose(3)].into();
    if ctx::choose(2) == 0 {
      h["cty"] = ["text/plain", "application/json", "json"][ctx::choose(3)].into();
    }
    h["simParam"] = Value::from(ctx::choose(100) as u64);
  }
  h
}

/// Produces a notice with one of the three encoders. Returns None if the encoder refuses the combination.
fn produce(signers: &[Signer], events: &mut Vec<SignEvent>, ser: Ser) -> Option<Notice> {
  let b64_flag = ctx::choose(3) != 0;
  let detached = ctx::choose(3) == 0;
  let nonce = if ctx::choose(3) == 0 { Some(gen_nonce()) } else { None };
  let raw = gen_payload(b64_flag, ser, detached);
  let n_signers = if ser == Ser::General { 1 + ctx::choose(3.min(signers.len())) } else { 1 };
  // arrival order of co-signers chosen by the tape
  let mut order: Vec<usize> = (0..signers.len()).collect();
  for i in (1..order.len()).rev() {
    order.swap(i, ctx::choose(i + 1));
  }
  order.truncate(n_signers);
  // one general token in 100 has MANY recipients (signers taking turns): any number of recipients is legal
  if ser == Ser::General && ctx::chance(1, 100) {
    let many = 30 + ctx::choose(12);
    let base = order.clone();
    while order.len() < many {
      order.push(base[order.len() % base.len()]);
    }
    ctx::stat("probe.general_many_recipients");
  }
  let signed_payload: Vec<u8> = if b64_flag { b64(&raw).into_bytes() } else { raw.clone() };
  // all recipients of one token agree on the VALUE of b64 (the general encoder demands it); each may spell the default
  // out ("b64": true, marked critical) or leave it out
  let mut mixed_spelling = (false, false);
  let mut parts: Vec<SigPart> = Vec::new();
  let headers: Vec<(JwsHeader, Option<JwsHeader>, Value, Option<Value>)> = order
    .iter()
    .map(|si| {
      let explicit_b64_true = b64_flag && ctx::choose(4) == 0;
      if explicit_b64_true {
        ctx::stat("probe.b64_explicit_true");
        mixed_spelling.0 = true;
      } else {
        mixed_spelling.1 = true;
      }
      let hj = header_json(&signers[*si], b64_flag, explicit_b64_true, &nonce, ctx::choose(2) == 0);
      let uj = if ser != Ser::Compact && ctx::choose(2) == 0 {
        Some(serde_json::json!({"simUnprotected": format!("u{}", ctx::choose(50))}))
      } else {
        None
      };
      let h: JwsHeader = serde_json::from_value(hj.clone()).expect("header");
      let u: Option<JwsHeader> = uj.clone().map(|u| serde_json::from_value(u).expect("unprotected header"));
      (h, u, hj, uj)
    })
    .collect();
  let wire: String = match ser {
    Ser::Compact => {
      let (h, _, hj, _) = &headers[0];
      let opts = if detached {
        CompactJwsEncodingOptions::Detached
      } else {
        CompactJwsEncodingOptions::NonDetached {
          charset_requirements: identity_jose::jws::CharSet::Default,
        }
      };
      let enc = CompactJwsEncoder::new_with_options(&raw, h, opts).ok()?;
      let input = enc.signing_input().to_vec();
      let sig = signers[order[0]].sign(&input).ok()?;
      events.push(SignEvent {
        signer: order[0],
        signing_input: input.clone(),
        signature: sig.clone(),
      });
      let w = enc.into_jws(&sig);
      parts.push(SigPart {
        signer: order[0],
        protected_b64: w.split('.').next().unwrap_or("").to_owned(),
        protected: hj.clone(),
        unprotected: None,
        signature: sig,
      });
      w
    }
    Ser::Flattened => {
      let (h, u, hj, uj) = &headers[0];
      let mut r = Recipient::new().protected(h);
      if let Some(u) = u {
        r = r.unprotected(u);
      }
      let enc = FlattenedJwsEncoder::new(&raw, r, detached).ok()?;
      let input = enc.signing_input().to_vec();
      let sig = signers[order[0]].sign(&input).ok()?;
      events.push(SignEvent {
        signer: order[0],
        signing_input: input.clone(),
        signature: sig.clone(),
      });
      let w = enc.into_jws(&sig).ok()?;
      let pb = String::from_utf8_lossy(&input).split('.').next().unwrap_or("").to_owned();
      parts.push(SigPart {
        signer: order[0],
        protected_b64: pb,
        protected: hj.clone(),
        unprotected: uj.clone(),
        signature: sig,
      });
      w
    }
    Ser::General => {
      let mk = |i: usize| {
        let (h, u, _, _) = &headers[i];
        let mut r = Recipient::new().protected(h);
        if let Some(u) = u {
          r = r.unprotected(u);
        }
        r
      };
      let mut enc = GeneralJwsEncoder::new(&raw, mk(0), detached).ok()?;
      let mut i = 0;
      let ready = loop {
        let input = enc.signing_input().to_vec();
        let sig = signers[order[i]].sign(&input).ok()?;
        events.push(SignEvent {
          signer: order[i],
          signing_input: input.clone(),
          signature: sig.clone(),
        });
        let pb = String::from_utf8_lossy(&input).split('.').next().unwrap_or("").to_owned();
        parts.push(SigPart {
          signer: order[i],
          protected_b64: pb,
          protected: headers[i].2.clone(),
          unprotected: headers[i].3.clone(),
          signature: sig.clone(),
        });
        let ready = enc.set_signature(&sig);
        i += 1;
        if i >= order.len() {
          break ready;
        }
        enc = ready.add_recipient(mk(i)).ok()?;
      };
      if order.len() > 1 {
        ctx::stat("probe.general_multi_signer");
        if mixed_spelling == (true, true) {
          ctx::stat("probe.general_recipients_spell_b64_differently");
        }
      }
      ready.into_jws().ok()?
    }
  };
  Some(Notice {
    ser,
    wire,
    detached: if detached { Some(signed_payload.clone()) } else { None },
    b64: b64_flag,
    raw_payload: raw,
    signed_payload,
    parts,
    nonce,
    via_create_jws: false,
    assembled: false,
  })
}

/// A general-serialisation token assembled by hand from two flattened tokens over the same payload string: one signer
/// signs payload P with b64 (default true), the other signs the ASCII text base64url(P) as an un-encoded payload
/// (b64=false). Both signing inputs end in the same payload string, so the assembled token is one the decoder accepts;
/// each signature's claims must be decoded according to ITS OWN protected header.
fn produce_assembled_mixed_b64(signers: &[Signer], events: &mut Vec<SignEvent>) -> Option<Notice> {
  if signers.len() < 2 {
    return None;
  }
  let raw = gen_payload(true, Ser::Flattened, false);
  let text = b64(&raw);
  let (s1, s2) = (ctx::choose(signers.len()), ctx::choose(signers.len()));
  let mut parts: Vec<SigPart> = Vec::new();
  let mut entries: Vec<Value> = Vec::new();
  for (si, b64_flag, payload) in [(s1, true, raw.clone()), (s2, false, text.clone().into_bytes())] {
    let hj = header_json(&signers[si], b64_flag, false, &None, false);
    let h: JwsHeader = serde_json::from_value(hj.clone()).ok()?;
    let enc = FlattenedJwsEncoder::new(&payload, Recipient::new().protected(&h), false).ok()?;
    let input = enc.signing_input().to_vec();
    let sig = signers[si].sign(&input).ok()?;
    events.push(SignEvent {
      signer: si,
      signing_input: input.clone(),
      signature: sig.clone(),
    });
    let flat: Value = serde_json::from_str(&enc.into_jws(&sig).ok()?).ok()?;
    if flat.get("payload").and_then(|p| p.as_str()) != Some(text.as_str()) {
      return None; // both tokens must carry the identical payload string
    }
    entries.push(serde_json::json!({"protected": flat["protected"], "signature": flat["signature"]}));
    parts.push(SigPart {
      signer: si,
      protected_b64: flat["protected"].as_str().unwrap_or("").to_owned(),
      protected: hj,
      unprotected: None,
      signature: sig,
    });
  }
  if ctx::choose(2) == 0 {
    entries.reverse();
    parts.reverse();
  }
  ctx::stat("probe.assembled_mixed_b64");
  Some(Notice {
    ser: Ser::General,
    wire: serde_json::json!({"payload": text, "signatures": entries}).to_string(),
    detached: None,
    b64: true,
    raw_payload: raw,
    signed_payload: text.into_bytes(),
    parts,
    nonce: None,
    via_create_jws: false,
    assembled: true,
  })
}

/// A compact token assembled by hand by a signer whose software spells the algorithm its own way: the fully-specified
/// name of RFC 9864 (`Ed25519`), another case, a trailing blank. The signature is genuine; the `alg` text of the
/// protected header is not the registered name the signer's key is for (and not what a receiver's key pins): such a
/// token must not be reported verified.
fn produce_assembled_alg_spelling(signers: &[Signer], events: &mut Vec<SignEvent>) -> Option<Notice> {
  let candidates: Vec<usize> = (0..signers.len()).filter(|i| signers[*i].alg == "EdDSA").collect();
  if candidates.is_empty() {
    return None;
  }
  let si = candidates[ctx::choose(candidates.len())];
  let spelled = ["Ed25519", "eddsa", "EDDSA", "EdDSA ", "Ed25519ph"][ctx::choose(5)];
  let raw = gen_payload(true, Ser::Compact, false);
  let hj = serde_json::json!({"alg": spelled, "kid": signers[si].kid()});
  let protected_b64 = b64(hj.to_string().as_bytes());
  let payload_b64 = b64(&raw);
  let input = format!("{protected_b64}.{payload_b64}").into_bytes();
  let sig = signers[si].sign(&input).ok()?;
  events.push(SignEvent {
    signer: si,
    signing_input: input,
    signature: sig.clone(),
  });
  ctx::stat("probe.assembled_alg_spelling");
  ctx::sched("algspelling", spelled.len() as u64);
  Some(Notice {
    ser: Ser::Compact,
    wire: format!("{protected_b64}.{payload_b64}.{}", b64(&sig)),
    detached: None,
    b64: true,
    raw_payload: raw,
    signed_payload: payload_b64.into_bytes(),
    parts: vec![SigPart {
      signer: si,
      protected_b64,
      protected: hj,
      unprotected: None,
      signature: sig,
    }],
    nonce: None,
    via_create_jws: false,
    assembled: true,
  })
}

/// create_jws on the signer's document with tape-drawn JwsSignatureOptions, possibly under storage faults.
fn produce_create_jws(signers: &[Signer], si: usize, faulty: bool) -> Option<Notice> {
  let s = &signers[si];
  let SignerKind::Stored(p) = &s.kind else { return None };
  ctx::stat("probe.create_jws_options");
  let mut opts = JwsSignatureOptions::default();
  let b64_flag = ctx::choose(3) != 0;
  if ctx::choose(2) == 0 || !b64_flag {
    opts = opts.b64(b64_flag);
  }
  let detached = ctx::choose(3) == 0;
  if detached {
    opts = opts.detached_payload(true);
  }
  let nonce = if ctx::choose(3) == 0 { Some(gen_nonce()) } else { None };
  if let Some(n) = &nonce {
    opts = opts.nonce(n.clone());
  }
  if ctx::choose(3) == 0 {
    opts = opts.attach_jwk_to_header(true);
  }
  let opt_typ: Option<&str> = if ctx::choose(3) == 0 { Some(["notice+jws", "application/notice+jws"][ctx::choose(2)]) } else { None };
  if let Some(t) = opt_typ {
    opts = opts.typ(t.to_owned());
  }
  let opt_cty: Option<&str> = if ctx::choose(3) == 0 { Some(["text/plain", "application/json"][ctx::choose(2)]) } else { None };
  if let Some(c) = opt_cty {
    opts = opts.cty(c.to_owned());
  }
  if ctx::choose(4) == 0 {
    opts = opts.url(identity_core::common::Url::parse("https://notice.example/a").unwrap());
  }
  // kid override: an opaque string, or something that names ANOTHER method of the same document (the token is still
  // requested for, and must be signed by, the method identified by the fragment argument)
  match ctx::choose(8) {
    0 => opts = opts.kid("custom-kid".to_owned()),
    1 => opts = opts.kid(format!("{}#second", s.did)),
    2 => opts = opts.kid("#second".to_owned()),
    3 => opts = opts.kid("second".to_owned()),
    _ => {}
  }
  // custom header parameters; one time in twelve they (mis)use the name of a registered parameter, which the call may
  // refuse - but if it answers with a token, that token must still decode to what was signed
  let mut shadowing = false;
  if ctx::choose(4) == 0 {
    let mut m = std::collections::BTreeMap::new();
    m.insert("simCustom".to_owned(), Value::from(ctx::choose(10) as u64));
    if ctx::choose(3) == 0 {
      shadowing = true;
      ctx::stat("probe.custom_parameter_with_registered_name");
      match ctx::choose(5) {
        0 => {
          m.insert("b64".to_owned(), Value::from(!b64_flag));
          m.insert("crit".to_owned(), serde_json::json!(["b64"]));
        }
        1 => {
          m.insert("kid".to_owned(), Value::from("did:sim:someone#else"));
        }
        2 => {
          m.insert("typ".to_owned(), Value::from("other+jws"));
        }
        3 => {
          m.insert("alg".to_owned(), Value::from("none"));
        }
        _ => {
          m.insert("nonce".to_owned(), Value::from("another-nonce"));
        }
      }
    }
    opts = opts.custom_header_parameters(m);
  }
  let raw = gen_payload(b64_flag, Ser::Compact, detached);
  // storage faults while signing (I8.2)
  if faulty {
    let mut rates = p.ctl.rates.borrow_mut();
    rates.insert("sign", (1, 3));
    rates.insert("get_key_id", (1, 4));
  }
  p.ctl.begin_op(0);
  let before = p.ctl.sign_log.borrow().len();
  let r = match &p.doc {
    AnyDoc::Core(d) => block_on(d.create_jws(&p.storage, &s.kid(), &raw, &opts)),
    AnyDoc::Iota(d) => block_on(d.create_jws(&p.storage, &s.kid(), &raw, &opts)),
  };
  let injected = !p.ctl.failed_kinds().is_empty();
  p.ctl.end_op();
  p.ctl.rates.borrow_mut().clear();
  let jws = match r {
    Ok(j) => {
      if injected {
        ctx::violation(
          "C08",
          "C08.storage_fault_yields_error_not_token",
          "create_jws/token-despite-storage-failure",
          format!("create_jws returned a token although storage calls {:?} failed", p.ctl.failed_kinds()),
        );
      }
      j.as_str().to_owned()
    }
    Err(e) => {
      if injected {
        // retry without faults must succeed
        p.ctl.begin_op(0);
        let r2 = match &p.doc {
          AnyDoc::Core(d) => block_on(d.create_jws(&p.storage, &s.kid(), &raw, &opts)),
          AnyDoc::Iota(d) => block_on(d.create_jws(&p.storage, &s.kid(), &raw, &opts)),
        };
        p.ctl.end_op();
        match r2 {
          Ok(j) => {
            ctx::stat("probe.retry_after_storage_fault_ok");
            ctx::mark_nontrivial();
            j.as_str().to_owned()
          }
          Err(e2) => {
            ctx::violation(
              "C08",
              "C08.storage_fault_yields_error_not_token",
              "create_jws/retry-fails",
              format!("create_jws failed under an injected storage fault ({e}) and the retry without faults fails too: {e2}"),
            );
            return None;
          }
        }
      } else if shadowing {
        ctx::stat("probe.custom_parameter_with_registered_name_refused");
        return None;
      } else {
        ctx::violation(
          "C08",
          "C08.produced_token_decodes_and_verifies",
          "create_jws/refused-valid-options",
          format!("create_jws refused a valid option combination ({opts:?}, {}-byte payload): {e}", raw.len()),
        );
        return None;
      }
    }
  };
  let log = p.ctl.sign_log.borrow();
  let ev = log.get(before..).and_then(|s| s.last())?;
  let protected_b64 = jws.split('.').next().unwrap_or("").to_owned();
  let protected: Value = b64url_decode(&protected_b64).and_then(|b| serde_json::from_slice(&b).ok()).unwrap_or(Value::Null);
  // the emitted (and signed) protected header carries exactly what the options asked for
  let want_typ = opt_typ.unwrap_or("JWT");
  if shadowing {
    // (whether such a token is consistent is judged when it is received)
  } else if protected.get("typ").and_then(|t| t.as_str()) != Some(want_typ)
    || protected.get("cty").and_then(|t| t.as_str()) != opt_cty
    || protected.get("nonce").and_then(|t| t.as_str()) != nonce.as_deref()
  {
    ctx::violation(
      "C08",
      "C08.produced_token_decodes_and_verifies",
      "create_jws/header-differs-from-options",
      format!("create_jws emitted protected header {protected} for options typ={opt_typ:?} cty={opt_cty:?} nonce={nonce:?}"),
    );
  }
  let signed_payload: Vec<u8> = if b64_flag { b64(&raw).into_bytes() } else { raw.clone() };
  Some(Notice {
    ser: Ser::Compact,
    wire: jws,
    detached: if detached { Some(signed_payload.clone()) } else { None },
    b64: b64_flag,
    raw_payload: raw,
    signed_payload,
    parts: vec![SigPart {
      signer: si,
      protected_b64,
      protected,
      unprotected: None,
      signature: ev.signature.clone(),
    }],
    nonce,
    via_create_jws: true,
    assembled: false,
  })
}

// ------------------------------------------------------------------------------------------------------------------
// Delivery
// ------------------------------------------------------------------------------------------------------------------

#[derive(Clone, Debug, PartialEq)]
enum Move {
  Intact,
  FlipProtected,
  FlipPayload,
  FlipSignature,
  Truncate,
  Splice,
  AlgToUnprotected,
  BothPayloads,
  WrongDetached,
  StripSignature,
  /// one or two bytes appended to a signature (a longer byte string is another byte string)
  ExtendSignature,
  /// base64 padding characters appended to the protected header segment (other bytes than the ones signed)
  PadProtected,
}

struct Delivered {
  wire: String,
  detached: Option<Vec<u8>>,
  mv: Move,
}

/// Flips one bit of the `idx`-th base64url character run found after `marker` in `wire`.
fn flip_in_segment(seg: &str) -> Option<String> {
  if seg.is_empty() {
    return None;
  }
  let pos = ctx::choose(seg.len());
  let bit = ctx::choose(6) as u8;
  let mut b = seg.as_bytes().to_vec();
  b[pos] ^= 1 << bit;
  ctx::sched("flip", (pos * 8 + bit as usize) as u64);
  String::from_utf8(b).ok()
}

fn deliver(n: &Notice, others: &[Notice]) -> Delivered {
  let mv = match ctx::weighted(&[8, 2, 2, 2, 1, 1, 1, 1, 1, 1, 1, 1]) {
    0 => Move::Intact,
    1 => Move::FlipProtected,
    2 => Move::FlipPayload,
    3 => Move::FlipSignature,
    4 => Move::Truncate,
    5 => Move::Splice,
    6 => Move::AlgToUnprotected,
    7 => Move::BothPayloads,
    8 => Move::WrongDetached,
    9 => Move::StripSignature,
    10 => Move::ExtendSignature,
    _ => Move::PadProtected,
  };
  let extend = |seg: &str| -> Option<String> {
    let mut raw = b64url_decode(seg)?;
    raw.extend_from_slice(&ctx::bytes(1 + ctx::choose(2)));
    Some(b64(&raw))
  };
  let mut wire = n.wire.clone();
  let mut detached = n.detached.clone();
  let json_edit = |f: &dyn Fn(&mut Value) -> bool| -> Option<String> {
    let mut v: Value = serde_json::from_str(&n.wire).ok()?;
    if f(&mut v) {
      Some(v.to_string())
    } else {
      None
    }
  };
  let applied: Option<()> = match (&mv, n.ser) {
    (Move::Intact, _) => Some(()),
    (Move::FlipProtected | Move::FlipPayload | Move::FlipSignature, Ser::Compact) => {
      let parts: Vec<&str> = n.wire.split('.').collect();
      let idx = match mv {
        Move::FlipProtected => 0,
        Move::FlipPayload => 1,
        _ => 2,
      };
      if idx == 1 && n.detached.is_some() {
        // the payload travels separately: flip it there
        detached.as_mut().and_then(|d| {
          if d.is_empty() {
            return None;
          }
          let pos = ctx::choose(d.len());
          d[pos] ^= 1 << ctx::choose(6);
          Some(())
        })
      } else {
        flip_in_segment(parts[idx]).map(|f| {
          let mut p: Vec<String> = parts.iter().map(|s| (*s).to_owned()).collect();
          p[idx] = f;
          wire = p.join(".");
        })
      }
    }
    (Move::FlipProtected | Move::FlipPayload | Move::FlipSignature, _) => {
      let field = match mv {
        Move::FlipProtected => "protected",
        Move::FlipPayload => "payload",
        _ => "signature",
      };
      if field == "payload" && n.detached.is_some() {
        detached.as_mut().and_then(|d| {
          if d.is_empty() {
            return None;
          }
          let pos = ctx::choose(d.len());
          d[pos] ^= 1 << ctx::choose(6);
          Some(())
        })
      } else {
        json_edit(&|v: &mut Value| {
          let target: Option<&mut Value> = if field == "payload" {
            v.get_mut("payload")
          } else if v.get("signatures").is_some() {
            let k = v["signatures"].as_array().map(|a| a.len()).unwrap_or(0);
            if k == 0 {
              None
            } else {
              let i = ctx::choose(k);
              v["signatures"][i].get_mut(field)
            }
          } else {
            v.get_mut(field)
          };
          match target {
            Some(Value::String(s)) => match flip_in_segment(s) {
              Some(f) => {
                *s = f;
                true
              }
              None => false,
            },
            _ => false,
          }
        })
        .map(|w| wire = w)
      }
    }
    (Move::Truncate, _) => {
      let mut cut = ctx::choose(n.wire.len());
      while !n.wire.is_char_boundary(cut) {
        cut -= 1;
      }
      wire = n.wire[..cut].to_owned();
      Some(())
    }
    (Move::Splice, Ser::Compact) => others.iter().find(|o| o.ser == Ser::Compact && o.wire != n.wire && o.detached.is_none()).and_then(|o| {
      let a: Vec<&str> = n.wire.split('.').collect();
      let b: Vec<&str> = o.wire.split('.').collect();
      if a.len() == 3 && b.len() == 3 && n.detached.is_none() {
        wire = format!("{}.{}.{}", a[0], b[1], a[2]);
        Some(())
      } else {
        None
      }
    }),
    (Move::Splice, _) => others
      .iter()
      .find(|o| o.ser == n.ser && o.wire != n.wire && o.detached.is_none() && n.detached.is_none())
      .and_then(|o| {
        let ov: Value = serde_json::from_str(&o.wire).ok()?;
        let op = ov.get("payload")?.clone();
        json_edit(&|v: &mut Value| {
          v["payload"] = op.clone();
          true
        })
        .map(|w| wire = w)
      }),
    (Move::AlgToUnprotected, Ser::Flattened | Ser::General) => json_edit(&|v: &mut Value| {
      // re-encode the protected header without alg and put alg into the unprotected header
      let sigobj: &mut Value = if v.get("signatures").is_some() { &mut v["signatures"][0] } else { v };
      let Some(p) = sigobj.get("protected").and_then(|p| p.as_str()).map(str::to_owned) else { return false };
      let Some(mut h) = b64url_decode(&p).and_then(|b| serde_json::from_slice::<Value>(&b).ok()) else { return false };
      let Some(alg) = h.as_object_mut().and_then(|o| o.remove("alg")) else { return false };
      sigobj["protected"] = b64(h.to_string().as_bytes()).into();
      let mut u = sigobj.get("header").cloned().unwrap_or_else(|| serde_json::json!({}));
      u["alg"] = alg;
      sigobj["header"] = u;
      true
    })
    .map(|w| wire = w),
    (Move::AlgToUnprotected, Ser::Compact) => None,
    (Move::BothPayloads, _) => {
      if n.detached.is_none() {
        // embedded payload present: additionally supply a detached one
        detached = Some(n.signed_payload.clone());
        Some(())
      } else {
        None
      }
    }
    (Move::WrongDetached, _) => {
      if n.detached.is_some() {
        let other = others.iter().find(|o| o.signed_payload != n.signed_payload && o.b64 == n.b64);
        other.map(|o| detached = Some(o.signed_payload.clone()))
      } else {
        None
      }
    }
    (Move::PadProtected, Ser::Compact) => {
      let parts: Vec<&str> = n.wire.split('.').collect();
      if parts.len() == 3 {
        // base64 padding behind the protected segment, or - a token cut out of a file or a header line - a blank, tab,
        // line feed or carriage return before or behind the whole token: not the bytes that were signed either way
        wire = match ctx::choose(4) {
          0 | 1 => format!("{}{}.{}.{}", parts[0], ["=", "=="][ctx::choose(2)], parts[1], parts[2]),
          2 => format!("{}{}", [" ", "\t", "\n", "\r", "\r\n"][ctx::choose(5)], n.wire),
          _ => format!("{}{}", n.wire, [" ", "\t", "\n", "\r", "\r\n"][ctx::choose(5)]),
        };
        Some(())
      } else {
        None
      }
    }
    (Move::PadProtected, _) => json_edit(&|v: &mut Value| {
      let target: Option<&mut Value> = if v.get("signatures").is_some() {
        let k = v["signatures"].as_array().map(|a| a.len()).unwrap_or(0);
        if k == 0 {
          None
        } else {
          let i = ctx::choose(k);
          v["signatures"][i].get_mut("protected")
        }
      } else {
        v.get_mut("protected")
      };
      match target {
        Some(Value::String(p)) => {
          p.push_str(["=", "=="][ctx::choose(2)]);
          true
        }
        _ => false,
      }
    })
    .map(|w| wire = w),
    (Move::ExtendSignature, Ser::Compact) => {
      let parts: Vec<&str> = n.wire.split('.').collect();
      match (parts.len(), parts.get(2).and_then(|s| extend(s))) {
        (3, Some(e)) => {
          wire = format!("{}.{}.{e}", parts[0], parts[1]);
          Some(())
        }
        _ => None,
      }
    }
    (Move::ExtendSignature, _) => json_edit(&|v: &mut Value| {
      let target: Option<&mut Value> = if v.get("signatures").is_some() {
        let k = v["signatures"].as_array().map(|a| a.len()).unwrap_or(0);
        if k == 0 {
          None
        } else {
          let i = ctx::choose(k);
          v["signatures"][i].get_mut("signature")
        }
      } else {
        v.get_mut("signature")
      };
      match target {
        Some(Value::String(sig)) => match extend(sig) {
          Some(e) => {
            *sig = e;
            true
          }
          None => false,
        },
        _ => false,
      }
    })
    .map(|w| wire = w),
    (Move::StripSignature, Ser::Compact) => {
      let parts: Vec<&str> = n.wire.split('.').collect();
      wire = format!("{}.{}.", parts[0], parts.get(1).copied().unwrap_or(""));
      Some(())
    }
    (Move::StripSignature, _) => json_edit(&|v: &mut Value| {
      if v.get("signatures").is_some() {
        v["signatures"][0]["signature"] = "".into();
      } else {
        v["signature"] = "".into();
      }
      true
    })
    .map(|w| wire = w),
  };
  let mv = if applied.is_none() || (wire == n.wire && detached == n.detached) { Move::Intact } else { mv };
  if mv == Move::Intact {
    wire = n.wire.clone();
    detached = n.detached.clone();
  }
  match mv {
    Move::FlipProtected => ctx::stat("fault.net.bitflip.protected"),
    Move::FlipPayload => ctx::stat("fault.net.bitflip.payload"),
    Move::FlipSignature => ctx::stat("fault.net.bitflip.signature"),
    Move::Truncate => ctx::stat("fault.net.truncate"),
    Move::Splice => ctx::stat("fault.adversary.splice"),
    Move::AlgToUnprotected => ctx::stat("fault.adversary.alg_to_unprotected"),
    Move::BothPayloads => ctx::stat("fault.adversary.both_payloads"),
    Move::WrongDetached => ctx::stat("fault.adversary.wrong_detached_payload"),
    Move::StripSignature => ctx::stat("fault.adversary.strip_signature"),
    Move::ExtendSignature => ctx::stat("fault.adversary.extend_signature"),
    Move::PadProtected => ctx::stat("fault.adversary.pad_protected_header"),
    Move::Intact => {}
  }
  Delivered { wire, detached, mv }
}

// ------------------------------------------------------------------------------------------------------------------
// Receiver
// ------------------------------------------------------------------------------------------------------------------

/// What the received bytes look like to the harness: per signature (protected segment as received, signature bytes),
/// plus the payload as received (embedded or detached).
struct ReceivedView {
  payload: Option<Vec<u8>>,
  sigs: Vec<(String, Option<Vec<u8>>)>,
}

fn view(ser: Ser, wire: &str, detached: &Option<Vec<u8>>) -> Option<ReceivedView> {
  match ser {
    Ser::Compact => {
      let parts: Vec<&str> = wire.split('.').collect();
      if parts.len() != 3 {
        return None;
      }
      let embedded = if parts[1].is_empty() { None } else { Some(parts[1].as_bytes().to_vec()) };
      let payload = match (embedded, detached) {
        (Some(e), None) => Some(e),
        (None, Some(d)) => Some(d.clone()),
        _ => None,
      };
      Some(ReceivedView {
        payload,
        sigs: vec![(parts[0].to_owned(), b64url_decode(parts[2]))],
      })
    }
    _ => {
      let v: Value = serde_json::from_str(wire).ok()?;
      let embedded = v.get("payload").and_then(|p| p.as_str()).filter(|s| !s.is_empty()).map(|s| s.as_bytes().to_vec());
      let payload = match (embedded, detached) {
        (Some(e), None) => Some(e),
        (None, Some(d)) => Some(d.clone()),
        _ => None,
      };
      let entries: Vec<&Value> = if let Some(a) = v.get("signatures").and_then(|s| s.as_array()) {
        a.iter().collect()
      } else {
        vec![&v]
      };
      let sigs = entries
        .iter()
        .map(|e| {
          (
            e.get("protected").and_then(|p| p.as_str()).unwrap_or("").to_owned(),
            e.get("signature").and_then(|s| s.as_str()).and_then(b64url_decode),
          )
        })
        .collect();
      Some(ReceivedView { payload, sigs })
    }
  }
}

fn receive(prop: &str, signers: &[Signer], events: &[SignEvent], n: &Notice, d: &Delivered, trust_label: Option<&str>) {
  let rec = RecordingVerifier { log: RefCell::new(Vec::new()) };
  let decoder = Decoder::new();
  let detached_ref: Option<&[u8]> = d.detached.as_deref();
  // decode + verify every signature with the key of the signer the receiver expects at that position
  let mut outcomes: Vec<Result<(Vec<u8>, Value, Option<Value>), String>> = Vec::new();
  let expected_signers: Vec<usize> = n.parts.iter().map(|p| p.signer).collect();
  let wrong_key: RefCell<Vec<bool>> = RefCell::new(Vec::new());
  let mut verify_item = |item: identity_jose::jws::JwsValidationItem<'_>, idx: usize| -> Result<(Vec<u8>, Value, Option<Value>), String> {
    let mut si = expected_signers.get(idx).copied().unwrap_or(expected_signers[0]);
    // a receiver that (mis)uses the key of ANOTHER signer of the same algorithm: verification must fail
    let mut wrong = false;
    if ctx::chance(1, 10) {
      let others: Vec<usize> = (0..signers.len()).filter(|o| *o != si && signers[*o].alg == signers[si].alg && signers[*o].jwk != signers[si].jwk).collect();
      if !others.is_empty() {
        si = others[ctx::choose(others.len())];
        wrong = true;
        ctx::stat("fault.receiver.uses_other_signers_key");
      }
    }
    {
      let mut w = wrong_key.borrow_mut();
      while w.len() <= idx {
        w.push(false);
      }
      w[idx] = wrong;
    }
    let mut key_json = signers[si].jwk.clone();
    // the receiver's copy of the key may pin an algorithm spelled differently from the registered name, or another
    // algorithm altogether: a pin that does not EQUAL the header's alg must make verification fail
    if !wrong && ctx::chance(1, 12) {
      let alg = signers[si].alg;
      let pin = match ctx::choose(4) {
        0 => alg.to_ascii_lowercase(),
        1 => alg.to_ascii_uppercase(),
        2 => format!("{alg} "),
        _ => (if alg == "EdDSA" { "ES256" } else { "EdDSA" }).to_owned(),
      };
      if pin != alg {
        key_json["alg"] = pin.into();
        wrong = true;
        ctx::stat("fault.receiver.key_pins_unequal_alg");
        let mut w = wrong_key.borrow_mut();
        w[idx] = true;
      }
    }
    // an EC key as a sloppy directory might list it: the two coordinates cut at another place (x one byte short, y one
    // byte long - together still 64 bytes), or the curve member naming ANOTHER curve than the one the key is on: neither
    // is the signer's key, verification must fail
    if !wrong && signers[si].alg != "EdDSA" && ctx::chance(1, 10) {
      let (x, y) = (
        key_json["x"].as_str().and_then(b64url_decode).unwrap_or_default(),
        key_json["y"].as_str().and_then(b64url_decode).unwrap_or_default(),
      );
      if x.len() == 32 && y.len() == 32 {
        if ctx::choose(2) == 0 {
          let mut ny = vec![x[31]];
          ny.extend_from_slice(&y);
          key_json["x"] = b64(&x[..31]).into();
          key_json["y"] = b64(&ny).into();
          ctx::stat("fault.receiver.ec_coordinates_cut_elsewhere");
        } else {
          let other = if key_json["crv"].as_str() == Some("P-256") { "secp256k1" } else { "P-256" };
          key_json["crv"] = [other, "P-384", ""][ctx::choose(3)].into();
          ctx::stat("fault.receiver.ec_key_declares_other_curve");
        }
        wrong = true;
        let mut w = wrong_key.borrow_mut();
        w[idx] = true;
      }
    }
    if let Some(label) = trust_label {
      // the receiver's trust store files every key under its own label (kid is metadata, not key material)
      key_json["kid"] = label.into();
    }
    let jwk: Jwk = serde_json::from_value(key_json).map_err(|e| e.to_string())?;
    let decoded = item.verify(&rec, &jwk).map_err(|e| e.to_string())?;
    Ok((
      decoded.claims.to_vec(),
      serde_json::to_value(&decoded.protected).unwrap_or(Value::Null),
      decoded.unprotected.as_ref().map(|u| serde_json::to_value(u).unwrap_or(Value::Null)),
    ))
  };
  let decode_result: Result<(), String> = ctx::catch(|| match n.ser {
    Ser::Compact => decoder
      .decode_compact_serialization(d.wire.as_bytes(), detached_ref)
      .map_err(|e| e.to_string())
      .map(|item| outcomes.push(verify_item(item, 0))),
    Ser::Flattened => decoder
      .decode_flattened_serialization(d.wire.as_bytes(), detached_ref)
      .map_err(|e| e.to_string())
      .map(|item| outcomes.push(verify_item(item, 0))),
    Ser::General => decoder
      .decode_general_serialization(d.wire.as_bytes(), detached_ref)
      .map_err(|e| e.to_string())
      .map(|iter| {
        for (i, item) in iter.enumerate() {
          match item {
            Ok(item) => outcomes.push(verify_item(item, i)),
            Err(e) => outcomes.push(Err(e.to_string())),
          }
        }
      }),
  })
  .unwrap_or_else(|p| {
    // the statement of C01/C08 does not speak about crashes of the decoder: observation only
    ctx::stat("observation.decoder_panic");
    Err(format!("panic: {p}"))
  });
  let rv = view(n.ser, &d.wire, &d.detached);
  let ser_name = format!("{:?}", n.ser).to_lowercase();

  // ---- C01: what the library asked the verifier to check ----
  let log = rec.log.borrow();
  for r in log.iter() {
    // must be ASCII(protected as received) '.' payload as received, for one of the received signatures
    let matches_received = rv.as_ref().map(|v| {
      v.payload.as_ref().map(|pl| {
        v.sigs.iter().any(|(prot, sig)| {
          let mut want = prot.as_bytes().to_vec();
          want.push(b'.');
          want.extend_from_slice(pl);
          want == r.signing_input && sig.as_deref() == Some(r.signature.as_slice())
        })
      })
    });
    if matches_received != Some(Some(true)) {
      ctx::violation(
        "C01",
        "C01.signing_input_is_received_bytes",
        format!("{ser_name}/{:?}/signing-input-not-received-bytes", d.mv),
        format!(
          "verifier was asked to check {:?}, which is not protected-as-received '.' payload-as-received of any received signature",
          String::from_utf8_lossy(&r.signing_input)
        ),
      );
    }
    // alg must be the one in the received protected header of that signature
    if let Some(v) = &rv {
      let prot = v.sigs.iter().find(|(prot, _)| r.signing_input.starts_with(prot.as_bytes())).map(|(p, _)| p.clone());
      let hdr_alg = prot
        .and_then(|p| b64url_decode(&p))
        .and_then(|b| serde_json::from_slice::<Value>(&b).ok())
        .and_then(|h| h.get("alg").and_then(|a| a.as_str().map(str::to_owned)));
      if hdr_alg.as_deref() != Some(r.alg.as_str()) {
        ctx::violation(
          "C01",
          "C01.alg_from_protected_header",
          format!("{ser_name}/{:?}/alg-not-from-protected-header", d.mv),
          format!("verifier was called with alg {} but the received protected header names {hdr_alg:?}", r.alg),
        );
      }
    }
  }
  // ---- per signature verdicts ----
  // a part whose header names an algorithm of another family than its signer's key is a Byzantine production
  let byzantine_alg = n.parts.iter().any(|p| p.protected.get("alg").and_then(|a| a.as_str()) != Some(signers[p.signer].alg));
  let tampered_base = d.mv != Move::Intact || byzantine_alg;
  for (i, o) in outcomes.iter().enumerate() {
    let wrong = wrong_key.borrow().get(i).copied().unwrap_or(false);
    let tampered = tampered_base || wrong;
    if wrong && o.is_ok() {
      ctx::violation(
        "C01",
        "C01.verified_only_if_check_succeeded",
        format!("{ser_name}/verified-under-another-signers-key-or-unequal-pin"),
        "token reported verified under a key that did not sign it or pins an algorithm unequal to the header's",
      );
    }
    match o {
      Ok((claims, protected, unprotected)) => {
        ctx::stat("probe.verified_ok");
        // reported verified => the real verifier was called for these bytes and returned Ok
        let backing = log.iter().any(|r| r.ok);
        if !backing {
          ctx::violation("C01", "C01.verified_only_if_check_succeeded", format!("{ser_name}/{:?}/no-successful-check", d.mv), "token reported verified but no verifier call succeeded");
        }
        // a matching honest signing event exists for exactly the verified bytes
        // ... made with the key the caller supplied (key material, not labels)
        let material = |k: &Value| (k["kty"].clone(), k["crv"].clone(), k["x"].clone(), k["y"].clone());
        let honest = log.iter().filter(|r| r.ok).any(|r| {
          events
            .iter()
            .any(|e| e.signing_input == r.signing_input && e.signature == r.signature && material(&signers[e.signer].jwk) == material(&r.key))
        });
        if !honest {
          ctx::violation(
            "C01",
            "C01.verified_only_if_check_succeeded",
            format!("{ser_name}/{:?}/no-honest-signing-event", d.mv),
            "token reported verified although the holder of the caller's key never signed these bytes",
          );
        }
        // the algorithm of the protected header must be one the caller's key can be used with at all
        {
          let si = n.parts.get(i).map(|p| p.signer).unwrap_or(n.parts[0].signer);
          let k = &signers[si].jwk;
          let fam = match (k["kty"].as_str(), k["crv"].as_str()) {
            (Some("OKP"), Some("Ed25519")) => "EdDSA",
            (Some("EC"), Some("P-256")) => "ES256",
            (Some("EC"), Some("secp256k1")) => "ES256K",
            _ => "?",
          };
          let alg = protected.get("alg").and_then(|a| a.as_str()).unwrap_or("");
          if fam != alg {
            ctx::violation(
              "C01",
              "C01.alg_of_header_with_callers_key",
              format!("{ser_name}/header-alg={alg}/key={fam}/reported-verified"),
              format!("token whose protected header names {alg} was reported verified under a {fam} key"),
            );
          }
        }
        // claims handed back are the signed payload (decoded unless b64=false)
        let want_claims: Option<Vec<u8>> = rv.as_ref().and_then(|v| v.payload.clone()).and_then(|pl| {
          let b64_flag = protected.get("b64").and_then(|b| b.as_bool()).unwrap_or(true);
          if b64_flag {
            b64url_decode(&String::from_utf8_lossy(&pl))
          } else {
            Some(pl)
          }
        });
        if want_claims.as_ref() != Some(claims) {
          ctx::violation(
            "C01",
            "C01.claims_are_signed_payload",
            format!("{ser_name}/{:?}/claims-differ", d.mv),
            format!("claims handed back {:?} are not the signed payload {:?}", String::from_utf8_lossy(claims), want_claims.map(|c| String::from_utf8_lossy(&c).into_owned())),
          );
        }
        if d.mv != Move::Intact && !matches!(d.mv, Move::BothPayloads) {
          // any difference in protected header, payload or signature from every honest token must be rejected;
          // (a tampering that left this particular signature's bytes intact is not a difference for it)
          let intact_for_this = rv
            .as_ref()
            .map(|v| {
              v.sigs.get(i).map(|(p, s)| *p == n.parts[i].protected_b64 && s.as_deref() == Some(n.parts[i].signature.as_slice())).unwrap_or(false)
                && v.payload.as_deref() == Some(n.signed_payload.as_slice())
            })
            .unwrap_or(false);
          if !intact_for_this {
            ctx::violation(
              "C01",
              "C01.bit_change_makes_verification_fail",
              format!("{ser_name}/{:?}/tampered-token-verified", d.mv),
              format!("a token differing from the signed one ({:?}) was reported verified", d.mv),
            );
          }
        }
        if !tampered && !n.assembled {
          // C08 I8.1: same payload, headers and signing input as signed
          if claims != &n.raw_payload {
            ctx::violation(
              "C08",
              "C08.produced_token_decodes_and_verifies",
              format!("{ser_name}/decoded-payload-differs"),
              format!("decoded payload {:?} differs from the signed payload {:?}", String::from_utf8_lossy(claims), String::from_utf8_lossy(&n.raw_payload)),
            );
          }
          let want_prot = &n.parts[i].protected;
          if !n.via_create_jws && protected != want_prot {
            ctx::violation(
              "C08",
              "C08.produced_token_decodes_and_verifies",
              format!("{ser_name}/protected-header-differs"),
              format!("decoded protected header {protected} differs from the one signed {want_prot}"),
            );
          }
          if !n.via_create_jws && unprotected != &n.parts[i].unprotected {
            ctx::violation(
              "C08",
              "C08.produced_token_decodes_and_verifies",
              format!("{ser_name}/unprotected-header-differs"),
              format!("decoded unprotected header {unprotected:?} differs from {:?}", n.parts[i].unprotected),
            );
          }
        }
      }
      Err(e) => {
        if tampered {
          ctx::stat("probe.tampered_rejected");
        } else {
          let needs_escape = n.raw_payload.iter().any(|b| *b == b'"' || *b == b'\\' || *b < 0x20);
          ctx::violation(
            "C08",
            "C08.produced_token_decodes_and_verifies",
            format!(
              "{ser_name}/b64={}/{}/{}/own-token-rejected",
              n.b64,
              if n.detached.is_some() { "detached" } else { "attached" },
              if needs_escape && !n.b64 { "payload-needs-json-escape" } else { "plain-payload" }
            ),
            format!("the library's own {ser_name} token (signature {i}) was rejected by its decoder/verifier: {e}"),
          );
        }
      }
    }
  }
  let tampered = tampered_base;
  if outcomes.is_empty() {
    match (&decode_result, tampered) {
      (Err(e), false) => {
        let needs_escape = n.raw_payload.iter().any(|b| *b == b'"' || *b == b'\\' || *b < 0x20);
        if needs_escape && !n.b64 {
          ctx::stat("probe.payload_needs_json_escape");
        }
        ctx::violation(
          "C08",
          "C08.produced_token_decodes_and_verifies",
          format!(
            "{ser_name}/b64={}/{}/{}/own-token-does-not-decode",
            n.b64,
            if n.detached.is_some() { "detached" } else { "attached" },
            if needs_escape && !n.b64 { "payload-needs-json-escape" } else { "plain-payload" }
          ),
          format!("the library's own {ser_name} token does not decode: {e}; token: {}", d.wire.chars().take(200).collect::<String>()),
        );
      }
      (Err(_), true) => ctx::stat("probe.tampered_rejected"),
      _ => {}
    }
  } else if !tampered {
    let needs_escape = n.raw_payload.iter().any(|b| *b == b'"' || *b == b'\\' || *b < 0x20);
    if needs_escape && !n.b64 && n.ser != Ser::Compact && n.detached.is_none() {
      ctx::stat("probe.payload_needs_json_escape");
    }
  }
  let _ = prop;
}

/// C08 I8.3: a token made for one method is rejected under another method's key, another nonce, an excluding scope.
fn separation(signers: &[Signer], n: &Notice) {
  if !n.via_create_jws || n.parts.len() != 1 {
    return;
  }
  let s = &signers[n.parts[0].signer];
  let SignerKind::Stored(p) = &s.kind else { return };
  let doc = p.doc.core();
  // verification goes through the document type the signer uses (IotaDocument::verify_jws or CoreDocument::verify_jws)
  let verify = |opts: &JwsVerificationOptions| -> Result<(), String> {
    match &p.doc {
      AnyDoc::Core(d) => d.verify_jws(&n.wire, n.detached.as_deref(), &EdDSAJwsVerifier::default(), opts).map(|_| ()).map_err(|e| e.to_string()),
      AnyDoc::Iota(d) => d
        .verify_jws(&identity_credential::credential::Jws::new(n.wire.clone()), n.detached.as_deref(), &EdDSAJwsVerifier::default(), opts)
        .map(|_| ())
        .map_err(|e| e.to_string()),
    }
  };
  let _ = doc;
  let kid_is_method = n.parts[0].protected.get("kid").and_then(|k| k.as_str()) == Some(s.kid().as_str());
  let base = || {
    let mut o = JwsVerificationOptions::default();
    if let Some(nn) = &n.nonce {
      o = o.nonce(nn.clone());
    }
    if !kid_is_method {
      o = o.method_id(identity_did::DIDUrl::parse(s.kid()).unwrap());
    }
    o
  };
  // positive: verifies against the document and key it was produced for
  if let Err(e) = verify(&base()) {
    ctx::violation(
      "C08",
      "C08.produced_token_decodes_and_verifies",
      "create_jws/does-not-verify-against-own-document",
      format!("token made by create_jws does not verify against its own document: {e}"),
    );
    return;
  }
  // another method's key
  let other = identity_did::DIDUrl::parse(format!("{}#second", s.did)).unwrap();
  if verify(&base().method_id(other)).is_ok() {
    ctx::violation("C08", "C08.separation", "verifies-under-other-method", "token made for #key verifies under the key of #second");
  } else {
    ctx::stat("probe.separation.other_key_rejected");
  }
  // another nonce
  // (another nonce: an unrelated one, or the token's nonce with only its LAST character changed)
  // (a token without a nonce whose PAYLOAD has a member called nonce: the payload is not the header)
  let payload_nonce: Option<String> = serde_json::from_slice::<Value>(&n.raw_payload).ok().and_then(|v| v.get("nonce").and_then(|x| x.as_str().map(str::to_owned)));
  let other_nonce = match &n.nonce {
    None if payload_nonce.is_some() => payload_nonce.unwrap(),
    // (the token's nonce with white space around it is another nonce)
    Some(_) if ctx::choose(4) == 0 => super::whitespace_twin(&n.nonce).unwrap_or_default(),
    Some(t) if ctx::choose(2) == 0 => {
      let mut o = t.clone();
      let last = o.pop().unwrap_or('x');
      o.push(if last == 'z' { 'y' } else { 'z' });
      o
    }
    _ => "someothernonce".to_owned(),
  };
  if verify(&base().nonce(other_nonce)).is_ok() {
    ctx::violation("C08", "C08.separation", "verifies-under-other-nonce", "token verifies under a different nonce");
  } else {
    ctx::stat("probe.separation.other_nonce_rejected");
  }
  // the verifier names a method of ANOTHER DID that the signer's keyAgreement merely refers to (same fragment as the
  // signer's own #key): that id is no key material of this document, in any scope
  let refers_elsewhere = serde_json::to_value(doc)
    .ok()
    .and_then(|j| j.get("keyAgreement").and_then(|a| a.as_array().cloned()))
    .map(|a| a.iter().any(|e| e.as_str() == Some("did:sim:elsewhere#key")))
    .unwrap_or(false);
  if refers_elsewhere && s.fragment == "key" {
    let foreign = identity_did::DIDUrl::parse("did:sim:elsewhere#key").unwrap();
    let ka = MethodScope::VerificationRelationship(identity_verification::MethodRelationship::KeyAgreement);
    for scoped in [false, true] {
      let mut o = base().method_id(foreign.clone());
      if scoped {
        o = o.method_scope(ka);
      }
      if verify(&o).is_ok() {
        ctx::violation(
          "C08",
          "C08.separation",
          "verifies-under-foreign-method-id",
          format!("token made for #key verifies when the verifier names did:sim:elsewhere#key (scoped: {scoped})"),
        );
      } else {
        ctx::stat("probe.separation.foreign_method_id_rejected");
      }
    }
  }
  // a scope that excludes the method (#key is general purpose, possibly referenced from authentication only)
  let scope = MethodScope::VerificationRelationship(identity_verification::MethodRelationship::KeyAgreement);
  if verify(&base().method_scope(scope)).is_ok() {
    ctx::violation("C08", "C08.separation", "verifies-under-excluding-scope", "token verifies under a scope that does not contain its method");
  } else {
    ctx::stat("probe.separation.scope_rejected");
  }
}

/// An application brings its own key whose JWK names the algorithm its own way (`"alg": "Ed25519"`, the
/// fully-specified name of RFC 9864; another case). Whether the store and `create_jws` take such a key is their
/// decision - but IF a token comes out, it verifies against the document and key it was produced for.
fn jwk_alg_spelled_differently_scenario() {
  use identity_storage::JwkMemStore;
  use identity_storage::KeyIdMemstore;
  use identity_storage::Storage;
  let did = "did:sim:ownkey";
  let spelled = ["Ed25519", "eddsa", "EDDSA", "Ed25519ph"][ctx::choose(4)];
  let storage: Storage<JwkMemStore, KeyIdMemstore> = Storage::new(JwkMemStore::new(), KeyIdMemstore::new());
  let mut seed = [0u8; 32];
  seed.copy_from_slice(&ctx::bytes(32));
  let sk = crypto::signatures::ed25519::SecretKey::from_bytes(&seed);
  let x = b64(sk.public_key().as_ref());
  let Ok(private) = serde_json::from_value::<Jwk>(serde_json::json!({"kty":"OKP","crv":"Ed25519","alg": spelled,"x": x,"d": b64(&seed)})) else { return };
  let Ok(public) = serde_json::from_value::<Jwk>(serde_json::json!({"kty":"OKP","crv":"Ed25519","alg": spelled,"x": x})) else { return };
  ctx::stat("probe.jwk_alg_spelled_differently");
  ctx::sched("jwkalg", spelled.len() as u64);
  let Ok(key_id) = block_on(storage.key_storage().insert(private)) else {
    ctx::stat("probe.jwk_alg_spelled_differently.refused_by_store");
    return;
  };
  let Ok(method) = VerificationMethod::new_from_jwk(CoreDID::parse(did).unwrap(), public, Some("odd")) else { return };
  let Ok(digest) = MethodDigest::new(&method) else { return };
  let mut doc = CoreDocument::builder(Default::default()).id(CoreDID::parse(did).unwrap()).build().expect("empty doc");
  if doc.insert_method(method, MethodScope::VerificationMethod).is_err() || block_on(storage.key_id_storage().insert_key_id(digest, key_id)).is_err() {
    return;
  }
  let payload = b"made with a key that names its algorithm its own way".to_vec();
  let Ok(jws) = block_on(doc.create_jws(&storage, "odd", &payload, &JwsSignatureOptions::default())) else {
    ctx::stat("probe.jwk_alg_spelled_differently.refused_by_create_jws");
    return;
  };
  match doc.verify_jws(jws.as_str(), None, &EdDSAJwsVerifier::default(), &JwsVerificationOptions::default()) {
    Ok(decoded) if decoded.claims.as_ref() == payload.as_slice() => {}
    Ok(_) => ctx::violation("C08", "C08.produced_token_decodes_and_verifies", "jwk-alg-spelled-differently/claims-differ", "claims differ from the signed payload"),
    Err(e) => ctx::violation(
      "C08",
      "C08.produced_token_decodes_and_verifies",
      "jwk-alg-spelled-differently/produced-token-does-not-verify",
      format!("create_jws with a key whose JWK says alg {spelled:?} returned a token that does not verify against the document it was produced with: {e}"),
    ),
  }
}

/// Crash probes of C01 (child processes, see `core::batch`).
pub fn crash_probes(_tier: &str) -> Vec<String> {
  vec!["boxed-verifier".to_owned()]
}

/// Child-process side: a token made by a stored signer is verified through a `Box<dyn JwsVerifier>` (how an
/// application that chooses its verifier at run time holds it), once intact and once with a flipped signature bit, on a
/// thread with a 2 MiB stack. The intact token verifies, the damaged one is refused - and both calls return.
pub fn run_crash_probe(_name: &str) -> String {
  let clock = Clock { now: ctx::BASE_TIME };
  let mut p = Party::new("signer", false, 3);
  clock.enter(0);
  if p.gen_method("key", None).is_err() {
    return "harness: no signer".to_owned();
  }
  let doc: CoreDocument = p.doc.core().clone();
  let jws = match block_on(doc.create_jws(&p.storage, "key", b"verified through a boxed verifier", &JwsSignatureOptions::default())) {
    Ok(j) => j.as_str().to_owned(),
    Err(e) => return format!("harness: create_jws failed: {e}"),
  };
  let worker = std::thread::Builder::new().stack_size(2 * 1024 * 1024).spawn(move || {
    let boxed: Box<dyn JwsVerifier> = Box::new(EdDSAJwsVerifier::default());
    let intact = doc.verify_jws(jws.as_str(), None, &boxed, &JwsVerificationOptions::default()).is_ok();
    let mut damaged = jws.clone().into_bytes();
    let last = damaged.len() - 2;
    damaged[last] = if damaged[last] == b'A' { b'B' } else { b'A' };
    let damaged = String::from_utf8(damaged).unwrap_or_default();
    let refused = doc.verify_jws(damaged.as_str(), None, &boxed, &JwsVerificationOptions::default()).is_err();
    match (intact, refused) {
      (true, true) => "error: intact token verified, damaged token refused".to_owned(),
      (false, _) => "wrong: the intact token did not verify through the boxed verifier".to_owned(),
      (_, false) => "wrong: a token with a damaged signature verified through the boxed verifier".to_owned(),
    }
  });
  match worker.map(|w| w.join()) {
    Ok(Ok(s)) => s,
    Ok(Err(_)) => "panic: verifier thread".to_owned(),
    Err(e) => format!("harness: cannot spawn verifier thread: {e}"),
  }
}

/// A document assembled elsewhere embeds a verification method of ANOTHER DID (`did:sim:fellow#fk`, e.g. a key of a
/// partner organisation) whose key lives in this party's storage. A token produced through the storage-backed call
/// with that method names that method (`kid` = the method's id) and verifies against the document it was produced
/// with.
fn foreign_embedded_method_scenario(clock: &Clock) {
  use identity_storage::JwkDocumentExt;
  let mut p = Party::new("signer", false, 7);
  clock.enter(0);
  if p.gen_method("fk", None).is_err() {
    return;
  }
  let mut dj = serde_json::to_value(p.doc.core()).unwrap();
  let own_id = format!("{}#fk", p.did);
  let foreign_id = "did:sim:fellow#fk".to_owned();
  let mut moved = false;
  if let Some(ms) = dj.get_mut("verificationMethod").and_then(|a| a.as_array_mut()) {
    for m in ms.iter_mut() {
      if m.get("id").and_then(|i| i.as_str()) == Some(own_id.as_str()) {
        m["id"] = foreign_id.clone().into();
        m["controller"] = "did:sim:fellow".into();
        moved = true;
      }
    }
  }
  if !moved {
    return;
  }
  let Ok(doc) = CoreDocument::from_json_value(dj) else { return };
  ctx::stat("probe.foreign_did_embedded_signing_method");
  let mut payload = b"made with the method of a fellow DID ".to_vec();
  payload.extend_from_slice(&ctx::bytes(6));
  let query = if ctx::choose(2) == 0 { foreign_id.as_str() } else { "fk" };
  ctx::sched("foreign-embedded", query.len() as u64);
  let jws = match block_on(doc.create_jws(&p.storage, query, &payload, &JwsSignatureOptions::default())) {
    Ok(j) => j,
    Err(e) => {
      ctx::violation(
        "C08",
        "C08.produced_token_decodes_and_verifies",
        "foreign-embedded-method/create_jws-fails",
        format!("create_jws with the embedded method {foreign_id} (query {query:?}) failed: {e}"),
      );
      return;
    }
  };
  let kid = jws
    .as_str()
    .split('.')
    .next()
    .and_then(super::b64url_decode)
    .and_then(|h| serde_json::from_slice::<Value>(&h).ok())
    .and_then(|h| h.get("kid").and_then(|k| k.as_str().map(str::to_owned)));
  if kid.as_deref() != Some(foreign_id.as_str()) {
    ctx::violation(
      "C08",
      "C08.produced_token_decodes_and_verifies",
      "foreign-embedded-method/kid-is-not-the-method-id",
      format!("the token made with the embedded method {foreign_id} names {kid:?} as kid"),
    );
    return;
  }
  match doc.verify_jws(jws.as_str(), None, &EdDSAJwsVerifier::default(), &JwsVerificationOptions::default()) {
    Ok(decoded) if decoded.claims.as_ref() == payload.as_slice() => {}
    Ok(_) => ctx::violation("C08", "C08.produced_token_decodes_and_verifies", "foreign-embedded-method/claims-differ", "claims differ from the signed payload"),
    Err(e) => ctx::violation(
      "C08",
      "C08.produced_token_decodes_and_verifies",
      "foreign-embedded-method/does-not-verify",
      format!("the token made with the embedded method {foreign_id} does not verify against the document it was produced with: {e}"),
    ),
  }
}

pub fn run(prop: &str, _params: &Params) {
  let clock = Clock { now: ctx::BASE_TIME };
  clock.enter(0);
  let mut signers: Vec<Signer> = Vec::new();
  if let Some(s) = new_stored_signer(0, &clock) {
    signers.push(s);
  }
  match ctx::choose(3) {
    0 => signers.push(new_kms_signer(1, false)),
    1 => signers.push(new_kms_signer(1, true)),
    _ => {
      if let Some(s) = new_stored_signer(1, &clock) {
        signers.push(s);
      }
    }
  }
  if ctx::choose(2) == 0 {
    signers.push(new_kms_signer(2, ctx::choose(2) == 0));
  }
  if signers.is_empty() {
    return;
  }
  if prop == "C08" && ctx::choose(10) == 0 {
    foreign_embedded_method_scenario(&clock);
  }
  if prop == "C08" && ctx::choose(12) == 0 {
    jwk_alg_spelled_differently_scenario();
  }
  let faulty_storage = prop == "C08" && ctx::choose(2) == 0;
  // one receiver in three files all trusted keys under one label of its own (unique per run)
  let trust_label: Option<String> = if ctx::chance(1, 3) { Some(format!("trusted-{:08x}", ctx::choose(1 << 30))) } else { None };
  let mut events: Vec<SignEvent> = Vec::new();
  let mut notices: Vec<Notice> = Vec::new();
  let count = if ctx::chance(1, 50) {
    ctx::stat("probe.long_history");
    20 + ctx::choose(20)
  } else {
    3 + ctx::choose(8)
  };
  for _ in 0..count {
    let n = if prop == "C08" && ctx::choose(3) == 0 {
      let stored: Vec<usize> = signers.iter().enumerate().filter(|(_, s)| matches!(s.kind, SignerKind::Stored(_))).map(|(i, _)| i).collect();
      if stored.is_empty() {
        None
      } else {
        let si = stored[ctx::choose(stored.len())];
        let n = produce_create_jws(&signers, si, faulty_storage);
        if let Some(n) = &n {
          // the signing event was logged at the storage seam
          events.push(SignEvent {
            signer: si,
            signing_input: {
              let mut v = n.parts[0].protected_b64.as_bytes().to_vec();
              v.push(b'.');
              v.extend_from_slice(&n.signed_payload);
              v
            },
            signature: n.parts[0].signature.clone(),
          });
        }
        n
      }
    } else {
      let ser = [Ser::Compact, Ser::Flattened, Ser::General][ctx::choose(3)];
      produce(&signers, &mut events, ser)
    };
    if let Some(n) = n {
      ctx::stat(match n.ser {
        Ser::Compact => "probe.ser.compact",
        Ser::Flattened => "probe.ser.flattened",
        Ser::General => "probe.ser.general",
      });
      for p in &n.parts {
        ctx::stat(&format!("probe.alg.{}", signers[p.signer].alg));
      }
      if !n.b64 {
        ctx::stat("probe.b64_false");
      }
      if n.detached.is_some() {
        ctx::stat("probe.detached");
      }
      ctx::sched("ser", n.ser as u64 * 4 + (n.b64 as u64) * 2 + n.detached.is_some() as u64);
      ctx::trace(format!(
        "notice {:?} b64={} detached={} signers={:?} create_jws={} payload={:?}",
        n.ser,
        n.b64,
        n.detached.is_some(),
        n.parts.iter().map(|p| signers[p.signer].alg).collect::<Vec<_>>(),
        n.via_create_jws,
        String::from_utf8_lossy(&n.raw_payload).chars().take(40).collect::<String>()
      ));
      notices.push(n);
    }
  }
  if prop == "C01" && ctx::choose(3) == 0 {
    if let Some(n) = produce_assembled_mixed_b64(&signers, &mut events) {
      notices.push(n);
    }
  }
  if prop == "C01" && ctx::choose(6) == 0 {
    if let Some(n) = produce_assembled_alg_spelling(&signers, &mut events) {
      notices.push(n);
    }
  }
  for i in 0..notices.len() {
    let n = notices[i].clone();
    // C08 delivers intact (completeness of the library's own output); C01 lets the network and adversary act
    let d = if prop == "C01" {
      deliver(&n, &notices)
    } else {
      Delivered {
        wire: n.wire.clone(),
        detached: n.detached.clone(),
        mv: Move::Intact,
      }
    };
    if d.mv != Move::Intact {
      ctx::mark_nontrivial();
      ctx::sched("mv", d.mv.clone() as u64);
    }
    ctx::trace(format!("deliver notice {i} {:?}", d.mv));
    receive(prop, &signers, &events, &n, &d, trust_label.as_deref());
    if prop == "C08" {
      separation(&signers, &n);
    }
    if ctx::has_violation() {
      break;
    }
  }
}
