//! C12 — a status-list host with a history of writes, served versions and verifiers that check credentials against
//! the version they fetched.

use super::Clock;
use crate::core::batch::Params;
use crate::core::ctx;
use identity_core::common::Object;
use identity_core::common::Url;
use identity_core::convert::FromJson;
use identity_credential::credential::Credential;
use identity_credential::credential::Issuer;
use identity_credential::revocation::status_list_2021::StatusList2021;
use identity_credential::revocation::status_list_2021::StatusList2021Credential;
use identity_credential::revocation::status_list_2021::StatusList2021CredentialBuilder;
use identity_credential::revocation::status_list_2021::StatusList2021CredentialError;
use identity_credential::revocation::status_list_2021::StatusPurpose;
use identity_credential::validator::JwtCredentialValidatorUtils;
use identity_credential::validator::JwtValidationError;
use identity_credential::validator::StatusCheck;
use std::collections::BTreeSet;

pub const RULE: &str = "One run = a status-list host with 1-2 StatusList2021 credentials (revocation / suspension; minimum size, \
  non-multiple-of-8 and larger sizes) and a history of 3-14 writes (set / clear through set_credential_status, update() and \
  the raw list; sequentially allocated, hence adjacent, indices; out-of-range indices), every served version kept with its \
  simulated time; verifiers fetch a (possibly stale) version and check credentials whose status entry points at a list, with \
  matching and mismatching list id / purpose and all three status-check modes. Model: set of set indices + length per list \
  per version. Non-trivial: at least one clear, refused clear or stale fetch; distinct = distinct hashes of the write history.";

pub fn probes(_tier: &str) -> Vec<String> {
  [
    "probe.set",
    "probe.clear_suspension",
    "probe.clear_revocation_refused",
    "probe.out_of_range_refused",
    "probe.adjacent_in_same_byte",
    "probe.status.revoked",
    "probe.status.suspended",
    "probe.status.valid",
    "fault.verifier.mismatching_list_supplied",
    "fault.host.stale_version_fetched",
    "probe.raw_list_ops",
    "fault.issuer.malformed_status_entry",
    "probe.dense_large_list",
    "probe.very_long_list",
  ]
  .iter()
  .map(|s| (*s).to_owned())
  .collect()
}

struct ListModel {
  url: String,
  purpose: StatusPurpose,
  len: usize,
  set: BTreeSet<usize>,
}

struct Served {
  json: String,
  set: BTreeSet<usize>,
}

/// Harness-own helpers for lists written by other encoders.
fn gzip(data: &[u8]) -> Vec<u8> {
  use std::io::Write;
  let mut e = flate2::write::GzEncoder::new(Vec::new(), flate2::Compression::default());
  e.write_all(data).expect("in-memory write");
  e.finish().expect("in-memory finish")
}

fn gunzip(data: &[u8]) -> Option<Vec<u8>> {
  use std::io::Read;
  let mut out = Vec::new();
  flate2::read::MultiGzDecoder::new(data).read_to_end(&mut out).ok()?;
  Some(out)
}

/// base64 in either alphabet, with or without padding.
fn b64_any_decode(s: &str) -> Option<Vec<u8>> {
  let t: String = s.trim_end_matches('=').chars().map(|c| match c { '+' => '-', '/' => '_', o => o }).collect();
  super::b64url_decode(&t)
}

fn neighbourhood(i: usize, len: usize) -> Vec<usize> {
  let base = (i / 8) * 8;
  let lo = base.saturating_sub(8);
  let hi = (base + 16).min(len);
  (lo..hi).collect()
}

fn check_list(ctxt: &str, cred: &StatusList2021Credential, m: &ListModel, around: &[usize]) {
  use identity_credential::revocation::status_list_2021::CredentialStatus;
  let mut qs: BTreeSet<usize> = BTreeSet::new();
  for a in around {
    qs.extend(neighbourhood(*a, m.len));
  }
  let members: Vec<usize> = m.set.iter().copied().collect();
  for _ in 0..6.min(members.len()) {
    qs.extend(neighbourhood(members[ctx::choose(members.len())], m.len));
  }
  for _ in 0..4 {
    qs.insert(ctx::choose(m.len));
  }
  qs.insert(m.len - 1);
  for q in qs {
    let want_set = m.set.contains(&q);
    let got = cred.entry(q);
    let ok = match (&got, want_set, m.purpose) {
      (Ok(CredentialStatus::Valid), false, _) => true,
      (Ok(CredentialStatus::Revoked), true, StatusPurpose::Revocation) => true,
      (Ok(CredentialStatus::Suspended), true, StatusPurpose::Suspension) => true,
      _ => false,
    };
    if !ok {
      ctx::violation(
        "C12",
        "C12.independent_bits",
        format!("{ctxt}/entry-differs-from-model/{}", if want_set { "lost" } else { "spurious" }),
        format!("entry {q} of {} reads {got:?}, model says set={want_set} (offset {} in its byte)", m.url, q % 8),
      );
      return;
    }
  }
  // out of range reads are errors
  match ctx::catch(|| cred.entry(m.len).is_ok() || cred.entry(m.len + 7).is_ok()) {
    Ok(false) => {}
    Ok(true) => ctx::violation("C12", "C12.out_of_range_is_error", format!("{ctxt}/read-beyond-length"), "reading an entry at or beyond the list length succeeded"),
    Err(p) => ctx::violation(
      "C12",
      "C12.out_of_range_is_error",
      "read-beyond-length/panic",
      format!("reading entry {} or {} of a {}-entry list panicked instead of returning an error: {p}", m.len, m.len + 7, m.len),
    ),
  }
}

pub fn run(_params: &Params) {
  let mut clock = Clock { now: ctx::BASE_TIME };
  clock.enter(0);
  let n_lists = 1 + ctx::choose(2);
  let mut creds: Vec<StatusList2021Credential> = Vec::new();
  let mut models: Vec<ListModel> = Vec::new();
  let mut served: Vec<Vec<Served>> = Vec::new();
  // one host in four tells its lists apart by a query parameter only (same path)
  let lists_by_query = ctx::choose(4) == 0;
  if lists_by_query {
    ctx::stat("probe.lists_told_apart_by_query_only");
  }
  for i in 0..n_lists {
    let purpose = if (i + ctx::choose(2)) % 2 == 0 {
      StatusPurpose::Revocation
    } else {
      StatusPurpose::Suspension
    };
    let entries = match ctx::choose(4) {
      0 | 1 => 131_072,
      2 => 131_072 + 1 + ctx::choose(7),
      _ => 131_072 + 8 * (1 + ctx::choose(2000)),
    };
    let Ok(list) = StatusList2021::new(entries) else { return };
    let len = list.len();
    // list ids that are string prefixes of one another (".../lists/1", ".../lists/12"): ids must match exactly
    let url = if lists_by_query {
      format!("https://status.example/lists?list=1{}", "2".repeat(i))
    } else {
      format!("https://status.example/lists/1{}", "2".repeat(i))
    };
    let built = StatusList2021CredentialBuilder::new(list)
      .purpose(purpose)
      .subject_id(Url::parse(if ctx::choose(2) == 0 { format!("{url}#list") } else { url.clone() }).unwrap())
      .issuer(Issuer::Url(Url::parse("did:sim:host").unwrap()))
      .build();
    let Ok(mut c) = built else { return };
    // a list credential as another host might serve it: identified by its credentialSubject.id only (no `id` member)
    if ctx::choose(6) == 0 {
      let mut j = serde_json::to_value(&c).unwrap();
      if j.as_object_mut().and_then(|o| o.remove("id")).is_some() {
        if let Ok(c2) = StatusList2021Credential::from_json(&j.to_string()) {
          c = c2;
          ctx::stat("probe.list_credential_without_own_id");
        }
      }
    }
    // a list credential with a validity period of its own (long over, or far ahead): the status of an entry is the bit
    if ctx::choose(5) == 0 {
      let mut j = serde_json::to_value(&c).unwrap();
      let past = ctx::choose(2) == 0;
      j["expirationDate"] = if past { "2001-01-01T00:00:00Z" } else { "2199-01-01T00:00:00Z" }.into();
      if ctx::choose(2) == 0 {
        j["issuanceDate"] = "2000-01-01T00:00:00Z".into();
      }
      if let Ok(c2) = StatusList2021Credential::from_json(&j.to_string()) {
        c = c2;
        ctx::stat(if past { "probe.list_credential_expired_long_ago" } else { "probe.list_credential_expires_far_ahead" });
      }
    }
    creds.push(c);
    models.push(ListModel {
      url,
      purpose,
      len,
      set: BTreeSet::new(),
    });
    served.push(Vec::new());
  }
  // too-small lists are refused
  if StatusList2021::new(131_071 - ctx::choose(1000)).is_ok() {
    ctx::violation("C12", "C12.out_of_range_is_error", "size/below-minimum-accepted", "a list below the minimum size was created");
  }
  let mut next_index: Vec<usize> = models.iter().map(|_| ctx::choose(64)).collect();
  let mut issued: Vec<(Credential, usize, usize)> = Vec::new(); // (credential with status, list, index)
  let writes = if ctx::chance(1, 50) {
    ctx::stat("probe.long_history");
    40 + ctx::choose(60)
  } else {
    3 + ctx::choose(12)
  };
  let mut nontrivial = false;
  for step in 0..writes {
    clock.advance(900);
    clock.enter(0);
    // step kinds: one write; several writes inside one update() closure; re-assignment of the status of a credential
    // that already has one (the issuer moves it to another entry)
    let special = ctx::weighted(&[8, 2, 2]);
    let reassign_k: Option<usize> = if special == 2 && !issued.is_empty() { Some(ctx::choose(issued.len())) } else { None };
    let li = match reassign_k {
      Some(k) => issued[k].1,
      None => ctx::choose(models.len()),
    };
    // index: sequential allocation (adjacent), an index used before, a random one, or out of range
    let kind = if reassign_k.is_some() { ctx::weighted(&[1, 4, 2, 3]) } else { ctx::weighted(&[5, 4, 2, 1]) };
    let index: usize = match kind {
      0 => {
        let v = next_index[li];
        next_index[li] += 1;
        v
      }
      1 => {
        let used: Vec<usize> = (0..next_index[li]).collect();
        if used.is_empty() {
          0
        } else {
          used[ctx::choose(used.len())]
        }
      }
      2 => ctx::choose(models[li].len),
      _ => models[li].len + ctx::choose(9),
    };
    if special == 1 {
      // ---- several writes in one update(): they take effect in order (the last write to an entry wins), all or none
      let mut ws: Vec<(usize, bool)> = Vec::new();
      for k in 0..2 + ctx::choose(2) {
        let idx = if k == 0 || ctx::choose(4) != 0 || index >= models[li].len { index } else { ctx::choose(models[li].len) };
        ws.push((idx, ctx::choose(2) == 0));
      }
      // the caller's closure either propagates a refused write (`?`) or carries on after it; in the second case the
      // update succeeds and every refused write must have had NO effect
      let swallow = ctx::choose(3) == 0;
      if swallow {
        use identity_credential::revocation::status_list_2021::CredentialStatus;
        ctx::stat("probe.multi_write_update_swallowing_refusals");
        let m = &mut models[li];
        let mut finals: Vec<BTreeSet<usize>> = vec![m.set.clone()];
        for (i, v) in &ws {
          if *i >= m.len {
            continue; // refused, no effect
          }
          let mut next: Vec<BTreeSet<usize>> = Vec::new();
          for st in finals {
            if m.purpose == StatusPurpose::Revocation && !*v && st.contains(i) {
              next.push(st.clone()); // refused, no effect
              if !m.set.contains(i) {
                // set earlier in this same, uncommitted update: clearing it again may also be allowed
                let mut applied = st;
                applied.remove(i);
                next.push(applied);
              }
            } else {
              let mut applied = st;
              if *v {
                applied.insert(*i);
              } else {
                applied.remove(i);
              }
              next.push(applied);
            }
          }
          next.dedup();
          finals = next;
        }
        let ws2 = ws.clone();
        let r = ctx::catch(|| {
          creds[li].update(|l| {
            for (i, v) in &ws2 {
              let _ = l.set_entry(*i, *v);
            }
            Ok(())
          })
        });
        ctx::sched("mws", ws.iter().fold(0u64, |a, (i, v)| a.wrapping_mul(31).wrapping_add((*i as u64) << 1 | *v as u64)));
        ctx::trace(format!("step {step}: list{li}({:?}) update swallowing refusals, writes {ws:?} -> {}", m.purpose, match &r { Ok(Ok(())) => "Ok", Ok(Err(_)) => "Err", Err(_) => "panic" }));
        match r {
          Err(p) => {
            ctx::violation("C12", "C12.out_of_range_is_error", "multi-write/panic", format!("update with writes {ws:?} panicked: {p}"));
            return;
          }
          Ok(Err(e)) => ctx::violation(
            "C12",
            "C12.independent_bits",
            format!("multi-write-swallowing/update-failed/{}", <&'static str>::from(&e)),
            format!("update whose closure returns Ok failed: {e}"),
          ),
          Ok(Ok(())) => {
            let touched: Vec<usize> = ws.iter().map(|(i, _)| *i).filter(|i| *i < m.len).collect();
            let is_set = |i: usize| !matches!(creds[li].entry(i), Ok(CredentialStatus::Valid));
            let matching = finals.iter().find(|f| touched.iter().all(|i| f.contains(i) == is_set(*i))).cloned();
            match matching {
              Some(f) => {
                if f != m.set {
                  nontrivial = true;
                }
                m.set = f;
              }
              None => {
                let cleared_revoked = m.purpose == StatusPurpose::Revocation && touched.iter().any(|i| m.set.contains(i) && !is_set(*i));
                ctx::violation(
                  "C12",
                  if cleared_revoked { "C12.revocation_is_one_way" } else { "C12.independent_bits" },
                  format!("multi-write-swallowing/{}", if cleared_revoked { "refused-clear-took-effect" } else { "entries-match-no-admissible-outcome" }),
                  format!("after update with writes {ws:?} (refusals ignored by the closure) on a {:?} list the touched entries read {:?}", m.purpose, touched.iter().map(|i| (*i, is_set(*i))).collect::<Vec<_>>()),
                );
              }
            }
          }
        }
        let around: Vec<usize> = ws.iter().map(|(i, _)| (*i).min(models[li].len - 1)).collect();
        check_list("after-multi-write", &creds[li], &models[li], &around);
      } else {
      let before_json = serde_json::to_string(&creds[li]).unwrap();
      let m = &mut models[li];
      let mut tmp = m.set.clone();
      let (mut definite, mut ambiguous) = (false, false);
      for (i, v) in &ws {
        if *i >= m.len {
          definite = true;
          break;
        }
        if m.purpose == StatusPurpose::Revocation && !*v && tmp.contains(i) {
          if m.set.contains(i) {
            definite = true; // clearing an entry that was revoked before this update
            break;
          }
          ambiguous = true; // clearing an entry set earlier in this same, uncommitted update: either answer is fine
          tmp.remove(i);
        } else if *v {
          tmp.insert(*i);
        } else {
          tmp.remove(i);
        }
      }
      let ws2 = ws.clone();
      let r = ctx::catch(|| {
        creds[li].update(|l| {
          for (i, v) in &ws2 {
            l.set_entry(*i, *v)?;
          }
          Ok(())
        })
      });
      ctx::stat("probe.multi_write_update");
      ctx::sched("mw", ws.iter().fold(0u64, |a, (i, v)| a.wrapping_mul(31).wrapping_add((*i as u64) << 1 | *v as u64)));
      ctx::trace(format!("step {step}: list{li}({:?}) update with writes {ws:?} -> {}", m.purpose, match &r { Ok(Ok(())) => "Ok", Ok(Err(_)) => "Err", Err(_) => "panic" }));
      match r {
        Err(p) => {
          ctx::violation("C12", "C12.out_of_range_is_error", "multi-write/panic", format!("update with writes {ws:?} panicked: {p}"));
          return;
        }
        Ok(Ok(())) => {
          if definite {
            ctx::violation(
              "C12",
              if ws.iter().any(|(i, _)| *i >= m.len) { "C12.out_of_range_is_error" } else { "C12.revocation_is_one_way" },
              "multi-write/refusable-write-accepted",
              format!("update with writes {ws:?} on a {}-entry {:?} list succeeded", m.len, m.purpose),
            );
          }
          if m.set != tmp {
            nontrivial = true;
          }
          m.set = tmp;
        }
        Ok(Err(e)) => {
          if !definite && !ambiguous {
            ctx::violation(
              "C12",
              "C12.independent_bits",
              format!("multi-write/legal-writes-refused/{}", <&'static str>::from(&e)),
              format!("update with writes {ws:?} on a {}-entry {:?} list failed: {e}", m.len, m.purpose),
            );
          }
          if serde_json::to_string(&creds[li]).unwrap() != before_json {
            ctx::violation("C12", "C12.independent_bits", "multi-write/refused-but-changed", "a refused update changed the status list credential");
          }
        }
      }
      let around: Vec<usize> = ws.iter().map(|(i, _)| (*i).min(models[li].len - 1)).collect();
      check_list("after-multi-write", &creds[li], &models[li], &around);
      }
    } else {
    let value = ctx::choose(3) != 0;
    let api = if reassign_k.is_some() { 0 } else { ctx::choose(3) };
    let mut credential_changed_by_refused_call = false;
    let before_json = serde_json::to_string(&creds[li]).unwrap();
    let m = &mut models[li];
    let m_len = m.len;
    let in_range = index < m.len;
    let clearing_revocation = m.purpose == StatusPurpose::Revocation && !value && in_range && m.set.contains(&index);
    if in_range && m.set.iter().any(|s| s / 8 == index / 8 && *s != index) {
      ctx::stat("probe.adjacent_in_same_byte");
    }
    let write = ctx::catch(|| -> Result<(), StatusList2021CredentialError> { match api {
      0 => {
        let mut subject_cred: Credential = Credential::<Object>::from_json_value(serde_json::json!({
          "@context": "https://www.w3.org/2018/credentials/v1",
          "type": ["VerifiableCredential"],
          "issuer": "did:sim:host",
          "issuanceDate": "2023-01-01T00:00:00Z",
          "credentialSubject": {"id": format!("did:sim:subject{step}")}
        }))
        .expect("credential");
        if let Some(k) = reassign_k {
          subject_cred = issued[k].0.clone();
          ctx::stat("probe.status_reassigned");
        }
        let before_cred = serde_json::to_value(&subject_cred).unwrap();
        let r = creds[li].set_credential_status(&mut subject_cred, index, value);
        if r.is_ok() {
          match reassign_k {
            Some(k) => issued[k] = (subject_cred, li, index),
            None => issued.push((subject_cred, li, index)),
          }
        } else if serde_json::to_value(&subject_cred).unwrap() != before_cred {
          credential_changed_by_refused_call = true;
        }
        r.map(|_| ())
      }
      1 => creds[li].update(|l| l.set_entry(index, value)),
      _ => creds[li].update(|l| {
        l.set_entry(index, value)?;
        Ok(())
      }),
    }});
    let result = match write {
      Ok(r) => r,
      Err(p) => {
        ctx::violation(
          "C12",
          "C12.out_of_range_is_error",
          if in_range { "write/panic" } else { "write-beyond-length/panic" },
          format!("set({index},{value}) on a {}-entry list panicked: {p}", m_len),
        );
        return;
      }
    };
    ctx::sched("w", (index as u64) << 2 | (value as u64) << 1 | api as u64 & 1);
    ctx::trace(format!(
      "step {step}: list{li}({:?},len {}) set({index},{value}) via api{api} -> {}",
      m.purpose,
      m.len,
      match &result {
        Ok(()) => "Ok".to_owned(),
        Err(e) => format!("Err({})", <&'static str>::from(e)),
      }
    ));
    match &result {
      Ok(()) => {
        if !in_range {
          ctx::violation("C12", "C12.out_of_range_is_error", "write/beyond-length-accepted", format!("write to index {index} of a {}-entry list succeeded", m.len));
        }
        if clearing_revocation {
          ctx::violation(
            "C12",
            "C12.revocation_is_one_way",
            "clear-of-revoked-entry-accepted",
            format!("revocation entry {index} was cleared through the status-list credential"),
          );
        }
        if value {
          m.set.insert(index);
          ctx::stat("probe.set");
        } else {
          if m.set.remove(&index) {
            nontrivial = true;
          }
          if m.purpose == StatusPurpose::Suspension {
            ctx::stat("probe.clear_suspension");
          }
        }
      }
      Err(e) => {
        let expected_refusal = !in_range || clearing_revocation;
        if !in_range {
          ctx::stat("probe.out_of_range_refused");
        }
        if clearing_revocation {
          ctx::stat("probe.clear_revocation_refused");
          nontrivial = true;
        }
        if !expected_refusal {
          ctx::violation(
            "C12",
            "C12.independent_bits",
            format!("write/legal-write-refused/{}", <&'static str>::from(e)),
            format!("set({index},{value}) on a {}-entry {:?} list failed: {e}", m.len, m.purpose),
          );
        }
        // a refused write leaves the list unchanged
        if serde_json::to_string(&creds[li]).unwrap() != before_json {
          ctx::violation("C12", "C12.independent_bits", "write/refused-but-changed", "a refused write changed the status list credential");
        }
        // ... and the credential keeps the entry it had: its reported status must stay that of ITS entry
        if credential_changed_by_refused_call {
          ctx::violation(
            "C12",
            "C12.reported_status",
            "assignment/refused-but-credential-status-changed",
            format!("set_credential_status({index},{value}) was refused but the credential's status entry now differs from the one it was issued with"),
          );
        }
      }
    }
    }
    // I12.1 read-back of the touched byte and its neighbours; encode/decode identity of the served form
    check_list("after-write", &creds[li], &models[li], &[index.min(models[li].len - 1)]);
    let json = serde_json::to_string(&creds[li]).unwrap();
    match StatusList2021Credential::from_json(&json) {
      Ok(back) => {
        if back != creds[li] {
          ctx::violation("C12", "C12.encoded_form_round_trip", "served-json/differs", "served credential JSON deserialises to a different credential");
        }
        check_list("served-version", &back, &models[li], &[index.min(models[li].len - 1)]);
      }
      Err(e) => ctx::violation("C12", "C12.encoded_form_round_trip", "served-json/rejected", format!("own served JSON rejected: {e}")),
    }
    // I12.2 monotone revocation over the host's served history
    if models[li].purpose == StatusPurpose::Revocation {
      if let Some(prev) = served[li].last() {
        if let Some(lost) = prev.set.iter().find(|i| !models[li].set.contains(i)) {
          ctx::violation(
            "C12",
            "C12.revocation_is_one_way",
            "served-history/revoked-entry-cleared",
            format!("entry {lost} was revoked in the previous served version and is clear now (model)"),
          );
        }
      }
    }
    served[li].push(Served {
      json,
      set: models[li].set.clone(),
    });

    // ---- a verifier fetches a version (possibly stale) and checks a credential ----
    if !issued.is_empty() && ctx::choose(2) == 0 {
      let (cred, cl, cindex) = issued[ctx::choose(issued.len())].clone();
      let versions = served[cl].len();
      if versions == 0 {
        continue;
      }
      let lag = if versions > 1 && ctx::chance(3, 8) {
        ctx::stat("fault.host.stale_version_fetched");
        nontrivial = true;
        1 + ctx::choose(versions - 1)
      } else {
        0
      };
      // mismatching list (another list's credential) one time in five
      let use_other = models.len() > 1 && ctx::choose(5) == 0;
      let fetch_from = if use_other { (cl + 1) % models.len() } else { cl };
      let fv = served[fetch_from].len().saturating_sub(1 + lag.min(served[fetch_from].len().saturating_sub(1)));
      let Some(sv) = served[fetch_from].get(fv) else { continue };
      // the host may serve the same list in the other spelling of base64 (the URL-safe alphabet of the W3C examples,
      // or with padding): the same bits, so the same answers
      let mut served_json = sv.json.clone();
      let mut respelled = false;
      if ctx::choose(8) == 0 {
        if let Ok(mut v) = serde_json::from_str::<serde_json::Value>(&served_json) {
          if let Some(enc) = v.get("credentialSubject").and_then(|c| c.get("encodedList")).and_then(|e| e.as_str()).map(str::to_owned) {
            let new_enc = if ctx::choose(2) == 0 {
              enc.trim_end_matches('=').replace('+', "-").replace('/', "_")
            } else {
              let mut p = enc.trim_end_matches('=').to_owned();
              while p.len() % 4 != 0 {
                p.push('=');
              }
              p
            };
            if new_enc != enc {
              v["credentialSubject"]["encodedList"] = new_enc.into();
              served_json = v.to_string();
              respelled = true;
              ctx::stat("fault.host.list_served_in_other_base64_spelling");
            }
          }
        }
      }
      // ... or compressed by a block encoder: a gzip FILE is a series of members (RFC 1952, 2.2); the same bits written as
      // two members are the same list
      let mut two_members = false;
      if !respelled && ctx::choose(10) == 0 {
        if let Ok(mut v) = serde_json::from_str::<serde_json::Value>(&served_json) {
          let enc = v.get("credentialSubject").and_then(|c| c.get("encodedList")).and_then(|e| e.as_str()).map(str::to_owned);
          if let Some(raw) = enc.as_deref().and_then(b64_any_decode).and_then(|z| gunzip(&z)) {
            if raw.len() >= 2 {
              let cut = 1 + ctx::choose(raw.len() - 1);
              let mut file = gzip(&raw[..cut]);
              file.extend_from_slice(&gzip(&raw[cut..]));
              v["credentialSubject"]["encodedList"] = crate::core::b64::encode(file).into();
              served_json = v.to_string();
              two_members = true;
              ctx::stat("fault.host.list_served_as_two_gzip_members");
            }
          }
        }
      }
      // ... or with its one credentialSubject as a one-element array (JSON-LD compaction with a set container): the VC
      // data model makes no difference between a value and a one-element set
      let mut subject_in_array = false;
      if ctx::choose(10) == 0 {
        if let Ok(mut v) = serde_json::from_str::<serde_json::Value>(&served_json) {
          if let Some(subject) = v.get("credentialSubject").filter(|s| s.is_object()).cloned() {
            v["credentialSubject"] = serde_json::Value::Array(vec![subject]);
            served_json = v.to_string();
            subject_in_array = true;
            ctx::stat("fault.host.list_served_with_subject_in_array");
          }
        }
      }
      // ... or with the `type` of its subject as a one-element array
      let mut subject_type_array = false;
      if !subject_in_array && ctx::choose(10) == 0 {
        if let Ok(mut v) = serde_json::from_str::<serde_json::Value>(&served_json) {
          if let Some(t) = v.get("credentialSubject").and_then(|s| s.get("type")).filter(|t| t.is_string()).cloned() {
            v["credentialSubject"]["type"] = serde_json::Value::Array(vec![t]);
            served_json = v.to_string();
            subject_type_array = true;
            ctx::stat("fault.host.list_served_with_subject_type_in_array");
          }
        }
      }
      let list_cred = match StatusList2021Credential::from_json(&served_json) {
        Ok(c) => c,
        Err(e) => {
          if subject_type_array {
            ctx::violation(
              "C12",
              "C12.reported_status",
              "list-with-subject-type-as-one-element-array/not-readable",
              format!("the status list credential served with the type of its subject as a one-element array is refused: {e}"),
            );
          } else if two_members {
            ctx::violation(
              "C12",
              "C12.reported_status",
              "list-as-two-gzip-members/not-readable",
              format!("the status list credential whose encodedList is a gzip file of two members is refused: {e}"),
            );
          } else if subject_in_array {
            ctx::violation(
              "C12",
              "C12.reported_status",
              "list-with-subject-as-one-element-array/not-readable",
              format!("the status list credential served with its one credentialSubject as a one-element array is refused: {e}"),
            );
          } else if respelled {
            ctx::violation(
              "C12",
              "C12.reported_status",
              "list-in-other-base64-spelling/not-readable",
              format!("the status list credential served with its encodedList in the URL-safe alphabet / with padding is refused: {e}"),
            );
          }
          continue;
        }
      };
      let mode = [StatusCheck::Strict, StatusCheck::SkipUnsupported, StatusCheck::SkipAll][ctx::choose(3)];
      // a status entry as another implementation might have written it: a required member missing or malformed.
      // Such an entry is not a StatusList2021Entry of any purpose and must be reported as invalid status.
      let mut cred = cred;
      let mut malformed_entry = false;
      if ctx::choose(6) == 0 {
        let mut cj = serde_json::to_value(&cred).unwrap();
        if let Some(st) = cj.get_mut("credentialStatus").and_then(|s| s.as_object_mut()) {
          match ctx::choose(4) {
            0 => {
              st.remove("statusPurpose");
            }
            1 => {
              st.remove("statusListIndex");
            }
            2 => {
              st.insert("statusListIndex".into(), "-1".into());
            }
            _ => {
              st.remove("statusListCredential");
            }
          }
          if let Ok(c2) = Credential::<Object>::from_json_value(cj) {
            cred = c2;
            malformed_entry = true;
            ctx::stat("fault.issuer.malformed_status_entry");
          }
        }
      }
      // the same entry with its index written as a JSON number instead of a string (another producer): the same entry
      if !malformed_entry && ctx::choose(8) == 0 {
        let mut cj = serde_json::to_value(&cred).unwrap();
        let n = cj.get("credentialStatus").and_then(|s| s.get("statusListIndex")).and_then(|i| i.as_str()).and_then(|i| i.parse::<u64>().ok());
        if let (Some(n), Some(st)) = (n, cj.get_mut("credentialStatus").and_then(|s| s.as_object_mut())) {
          st.insert("statusListIndex".into(), serde_json::Value::from(n));
          if let Ok(c2) = Credential::<Object>::from_json_value(cj) {
            cred = c2;
            ctx::stat("probe.status_index_as_json_number");
          }
        }
      }
      let r = ctx::catch(|| JwtCredentialValidatorUtils::check_status_with_status_list_2021(&cred, &list_cred, mode));
      let r = match r {
        Ok(r) => r,
        Err(p) => {
          ctx::violation("C12", "C12.reported_status", "check/panic", format!("check_status_with_status_list_2021 panicked: {p}"));
          continue;
        }
      };
      let is_set = sv.set.contains(&cindex);
      let matches = !use_other; // same list => same id and purpose
      let name = match &r {
        Ok(()) => "Ok",
        Err(e) => <&'static str>::from(e),
      };
      let want: &str = if mode == StatusCheck::SkipAll {
        "Ok"
      } else if malformed_entry || !matches {
        "InvalidStatus"
      } else if is_set && models[cl].purpose == StatusPurpose::Revocation {
        "Revoked"
      } else if is_set {
        "Suspended"
      } else {
        "Ok"
      };
      match want {
        "Revoked" => ctx::stat("probe.status.revoked"),
        "Suspended" => ctx::stat("probe.status.suspended"),
        "InvalidStatus" => ctx::stat("fault.verifier.mismatching_list_supplied"),
        _ => ctx::stat("probe.status.valid"),
      }
      if name != want {
        ctx::violation(
          "C12",
          "C12.reported_status",
          format!("check/want={want}/got={name}"),
          format!(
            "credential entry {cindex} of list{cl} checked against version {} of list{fetch_from} (set={is_set}, mode {mode:?}): got {name}, expected {want}",
            fv + 1
          ),
        );
      }
      let _ = matches!(r, Err(JwtValidationError::Revoked));
    }
  }

  // ---- a status entry that points into a list of more than 2^32 entries (a list beyond 512 MiB is not simulated; what
  // is checked is that the entry itself carries its index through reading and writing) ----
  if ctx::choose(10) == 0 {
    use identity_credential::revocation::status_list_2021::StatusList2021Entry;
    let index: u64 = (1u64 << 32) + ctx::choose(1 << 20) as u64;
    let as_number = ctx::choose(2) == 0;
    let mut j = serde_json::json!({
      "id": "https://status.example/lists/huge#94567",
      "type": "StatusList2021Entry",
      "statusPurpose": "revocation",
      "statusListIndex": index.to_string(),
      "statusListCredential": "https://status.example/lists/huge"
    });
    if as_number {
      j["statusListIndex"] = serde_json::Value::from(index);
    }
    ctx::stat("probe.status_index_beyond_32_bits");
    match serde_json::from_value::<StatusList2021Entry>(j) {
      Err(e) => ctx::violation(
        "C12",
        "C12.reported_status",
        "entry/index-beyond-32-bits-refused",
        format!("a status entry with statusListIndex {index} (a list of more than 2^32 entries) is refused: {e}"),
      ),
      Ok(entry) => {
        let back = serde_json::to_value(&entry).ok().and_then(|v| v.get("statusListIndex").cloned());
        let back_n = back.as_ref().and_then(|b| b.as_str().and_then(|s| s.parse::<u64>().ok()).or(b.as_u64()));
        if entry.index() as u64 != index || back_n != Some(index) {
          ctx::violation(
            "C12",
            "C12.reported_status",
            "entry/index-beyond-32-bits-changed",
            format!("a status entry read with statusListIndex {index} reports index {} and writes {back:?}", entry.index()),
          );
        }
      }
    }
  }

  // ---- a large, dense list: the encoded form exceeds the decompressor's internal buffer sizes ----
  if ctx::choose(40) == 0 {
    ctx::stat("probe.dense_large_list");
    let entries = 300_000 + 8 * ctx::choose(40_000);
    if let Ok(mut list) = StatusList2021::new(entries) {
      let len = list.len();
      // pseudo-random dense content derived from the tape
      let mut x: u64 = ((ctx::draw_u32() as u64) << 32) | ctx::draw_u32() as u64 | 1;
      let mut set_count = 0usize;
      for i in 0..len {
        x ^= x << 13;
        x ^= x >> 7;
        x ^= x << 17;
        if x & 1 == 1 {
          let _ = list.set(i, true);
          set_count += 1;
        }
      }
      let enc = list.clone().into_encoded_str();
      match StatusList2021::try_from_encoded_str(&enc) {
        Ok(back) if back == list => {}
        Ok(back) => ctx::violation(
          "C12",
          "C12.encoded_form_round_trip",
          "dense-large/encode-decode-differs",
          format!("a {len}-entry list with {set_count} set entries ({} encoded characters) decodes to a {}-entry list", enc.len(), back.len()),
        ),
        Err(e) => ctx::violation(
          "C12",
          "C12.encoded_form_round_trip",
          "dense-large/own-encoding-rejected",
          format!("a {len}-entry list with {set_count} set entries does not decode again: {e}"),
        ),
      }
    }
  }

  // ---- a very long, sparse list (more than 2^24 entries, i.e. more than 2 MiB uncompressed): high indices survive ----
  if ctx::choose(100) == 0 {
    ctx::stat("probe.very_long_list");
    // (one in twenty of these is beyond 2^28 entries, 32 MiB uncompressed)
    let entries = if ctx::chance(1, 20) {
      ctx::stat("probe.list_beyond_2_28");
      268_435_456 + 8 * (1 + ctx::choose(1000))
    } else {
      16_777_216 + 8 * (1 + ctx::choose(100_000))
    };
    if let Ok(mut list) = StatusList2021::new(entries) {
      let len = list.len();
      let marks = [0usize, 16_777_215, 16_777_216, len - 1, 16_777_216 + ctx::choose(len - 16_777_216), len - 2 - ctx::choose(1000)];
      for i in marks {
        let _ = list.set(i, true);
      }
      let enc = list.clone().into_encoded_str();
      match StatusList2021::try_from_encoded_str(&enc) {
        Ok(back) if back.len() == len && marks.iter().all(|i| back.get(*i).ok() == Some(true)) && back == list => {}
        Ok(back) => ctx::violation(
          "C12",
          "C12.encoded_form_round_trip",
          "very-long/encode-decode-differs",
          format!("a {len}-entry list with entries {marks:?} set decodes to a {}-entry list", back.len()),
        ),
        Err(e) => ctx::violation(
          "C12",
          "C12.encoded_form_round_trip",
          "very-long/own-encoding-rejected",
          format!("a {len}-entry list does not decode again: {e}"),
        ),
      }
    }
  }

  // ---- the raw list as a bit vector (no credential around it) ----
  if ctx::choose(3) == 0 {
    ctx::stat("probe.raw_list_ops");
    let entries = 131_072 + ctx::choose(9);
    if let Ok(mut list) = StatusList2021::new(entries) {
      let len = list.len();
      let mut model: BTreeSet<usize> = BTreeSet::new();
      let base = ctx::choose(len - 32);
      for _ in 0..(4 + ctx::choose(12)) {
        let i = base + ctx::choose(24);
        let v = ctx::choose(2) == 0;
        if list.set(i, v).is_err() {
          ctx::violation("C12", "C12.independent_bits", "raw/in-range-write-refused", format!("raw set({i},{v}) failed"));
        }
        if v {
          model.insert(i);
        } else {
          model.remove(&i);
          nontrivial = true;
        }
        for q in base.saturating_sub(8)..(base + 40).min(len) {
          if list.get(q).ok() != Some(model.contains(&q)) {
            ctx::violation(
              "C12",
              "C12.independent_bits",
              format!("raw/entry-differs-from-model/{}", if model.contains(&q) { "lost" } else { "spurious" }),
              format!("after raw set({i},{v}): entry {q} reads {:?}, model {}", list.get(q), model.contains(&q)),
            );
            return;
          }
        }
      }
      match ctx::catch(|| list.set(len, true).is_ok() || list.get(len).is_ok()) {
        Ok(false) => {}
        Ok(true) => ctx::violation("C12", "C12.out_of_range_is_error", "raw/beyond-length-accepted", "raw access at the list length succeeded"),
        Err(p) => ctx::violation("C12", "C12.out_of_range_is_error", "read-beyond-length/panic", format!("raw access at index {len} (= length) panicked: {p}")),
      }
      let enc = list.clone().into_encoded_str();
      match StatusList2021::try_from_encoded_str(&enc) {
        Ok(back) if back == list => {}
        _ => ctx::violation("C12", "C12.encoded_form_round_trip", "raw/encode-decode-differs", "into_encoded_str -> try_from_encoded_str is not the identity"),
      }
    }
  }
  if nontrivial {
    ctx::mark_nontrivial();
  }
}
