//! C16 — SD-JWT credentials and key-binding JWTs between issuer, holder, adversary and verifier.

use super::b64url_decode;
use super::did_of_url;
use super::doc_method;
use super::draw_lag;
use super::flip_bit;
use super::is_did;
use super::parse_compact;
use super::sig_truth;
use super::variant_names;
use super::Clock;
use super::Ledger;
use super::Party;
use crate::core::batch::Params;
use crate::core::ctx;
use crate::core::exec::block_on;
use crate::engines::docmodel::Scope;
use crate::engines::stor::to_scope;
use crate::engines::stor::AnyDoc;
use identity_core::common::Object;
use identity_core::common::Timestamp;
use identity_core::convert::FromJson;
use identity_credential::credential::Credential;
use identity_credential::sd_jwt_payload::KeyBindingJwtClaims;
use identity_credential::sd_jwt_payload::SdJwt;
use identity_credential::sd_jwt_payload::SdObjectDecoder;
use identity_credential::sd_jwt_payload::SdObjectEncoder;
use identity_credential::sd_jwt_payload::Sha256Hasher;
use identity_credential::validator::FailFast;
use identity_credential::validator::JwtCredentialValidationOptions;
use identity_credential::validator::KeyBindingJWTValidationOptions;
use identity_credential::validator::KeyBindingJwtError;
use identity_credential::validator::SdJwtCredentialValidator;
use identity_did::DIDUrl;
use identity_document::document::CoreDocument;
use identity_document::verifiable::JwsVerificationOptions;
use identity_eddsa_verifier::EdDSAJwsVerifier;
use identity_storage::JwkDocumentExt;
use identity_storage::JwsSignatureOptions;
use serde_json::Value;
use sha2::Digest;
use std::collections::BTreeSet;

pub const RULE: &str = "One run = an issuer, 1-2 holders, an adversary and a verifier with skewed clocks: the issuer conceals a \
  tape-drawn subset of claims (leaf claims, an array element, a nested object whose child is concealed too; salts from the \
  tape) and signs the SD-JWT; a holder discloses a subset and adds a key-binding JWT (typ, sd_hash, nonce, aud, iat from its \
  clock); the presentation string crosses a network that flips bits anywhere in the ~-separated string and an adversary that \
  drops / duplicates / reorders / forges disclosures, re-signs the KB-JWT with another key or as another holder, changes \
  typ, replays nonce / aud, or swaps in a stale KB-JWT; the verifier validates both parts with options drawn per call and \
  its clock stepped around the iat window. Non-trivial: at least one fault or false condition; distinct = distinct hashes \
  of (moves, expected outcomes).";

pub fn probes(_tier: &str) -> Vec<String> {
  [
    "fault.net.bitflip",
    "fault.adversary.drop_disclosure",
    "fault.adversary.duplicate_disclosure",
    "fault.adversary.reorder_disclosures",
    "fault.adversary.forge_disclosure",
    "fault.adversary.kb_other_key",
    "fault.adversary.kb_other_holder",
    "fault.adversary.kb_wrong_typ",
    "fault.adversary.kb_stale_sd_hash",
    "fault.adversary.strip_kb",
    "fault.adversary.kb_prefix_or_extension_value",
    "fault.adversary.kb_kid_names_foreign_reference",
    "fault.adversary.forged_issuer_claim",
    "fault.clock.boundary",
    "probe.cred.accepted",
    "probe.cred.rejected",
    "probe.kb.accepted",
    "probe.kb.rejected",
    "false.kb.signature",
    "false.kb.digest",
    "false.kb.nonce",
    "false.kb.aud",
    "false.kb.iat",
    "false.kb.typ",
    "false.cred.disclosure_unbound",
    "false.cred.nonce",
    "probe.nested_disclosure",
    "probe.array_disclosure",
  ]
  .iter()
  .map(|s| (*s).to_owned())
  .collect()
}

fn digest_of(s: &str) -> String {
  crate::core::b64::encode(sha2::Sha256::digest(s.as_bytes()))
}

fn ts(unix: i64) -> Timestamp {
  Timestamp::from_unix(unix).expect("timestamp in range")
}

fn sign_raw(p: &Party, fragment: &str, payload: &[u8], opts: &JwsSignatureOptions) -> Result<String, String> {
  let r = match &p.doc {
    AnyDoc::Core(d) => block_on(d.create_jws(&p.storage, fragment, payload, opts)),
    AnyDoc::Iota(d) => block_on(d.create_jws(&p.storage, fragment, payload, opts)),
  };
  r.map(|j| j.as_str().to_owned()).map_err(|e| e.to_string())
}

/// Names of the crash probes of C16: each runs in a CHILD process (see `core::batch`), because what it looks for - a
/// stack overflow - is not a panic, cannot be caught and would take the simulator down with it.
pub fn crash_probes(_tier: &str) -> Vec<String> {
  vec![
    "disclosure-chain-128".to_owned(),
    "disclosure-chain-20000".to_owned(),
    "refusals-under-memory-limit-3000".to_owned(),
  ]
}

/// Child-process side of the memory probe: ONE long-lived validator refuses the same issuer-signed SD-JWT `n` times,
/// each time presented with one garbage disclosure of 1 MiB, while the address space of the process is limited to
/// 1.5 GiB (setrlimit, what `ulimit -v` does). A verifier that keeps memory per refusal (n MiB in total) runs into the
/// limit: a failed allocation is not an error value, the process aborts.
fn run_memory_probe(name: &str) -> String {
  let n: usize = name.rsplit('-').next().and_then(|n| n.parse().ok()).unwrap_or(3000);
  let mut issuer = Party::new("issuer", false, 0);
  let _ = issuer.gen_method("sign", Some(1));
  let c = serde_json::json!({
    "@context": "https://www.w3.org/2018/credentials/v1",
    "id": "https://cred.example/sd/mem",
    "type": ["VerifiableCredential", "SimSdCredential"],
    "issuer": issuer.did,
    "issuanceDate": crate::core::time::rfc3339(ctx::BASE_TIME - 10),
    "credentialSubject": {"id": "did:sim:holder0", "name": "Holder"}
  });
  let cred = Credential::<Object>::from_json_value(c).expect("probe credential");
  let payload = cred.serialize_jwt(None).expect("probe credential serialises");
  let opts = JwsSignatureOptions::default().typ("sd-jwt".to_owned());
  let jwt = sign_raw(&issuer, "sign", payload.as_bytes(), &opts).expect("issuer signs");
  let issuer_doc: CoreDocument = issuer.doc.core().clone();
  let limit = libc::rlimit {
    rlim_cur: 1536 * 1024 * 1024,
    rlim_max: 1536 * 1024 * 1024,
  };
  // SAFETY: plain system call on this (child) process, no memory is shared with it
  if unsafe { libc::setrlimit(libc::RLIMIT_AS, &limit) } != 0 {
    return "harness: setrlimit failed".to_owned();
  }
  let validator = SdJwtCredentialValidator::with_signature_verifier(EdDSAJwsVerifier::default(), SdObjectDecoder::new_with_sha256());
  let garbage = "x".repeat(1024 * 1024);
  let mut refused = 0usize;
  for _ in 0..n {
    let sd = SdJwt::new(jwt.clone(), vec![garbage.clone()], None);
    match validator.validate_credential::<_, Object>(&sd, &issuer_doc, &JwtCredentialValidationOptions::default(), FailFast::FirstError) {
      Ok(_) => return "accepted a garbage disclosure".to_owned(),
      Err(_) => refused += 1,
    }
  }
  format!("error: {refused} refusals, process within its memory limit")
}

/// Child-process side of a crash probe. An issuer signs an SD-JWT whose disclosures form a chain: the claims conceal
/// one property whose disclosed value is an object that conceals one property whose disclosed value ... `links` times.
/// Every single JSON text involved (the claims, each disclosure) is two levels deep; depth only arises when the
/// verifier substitutes the disclosures into each other. The verifier runs on a thread with a 2 MiB stack (the default
/// of a spawned Rust thread, i.e. what a tokio worker or a request handler has). Returns "accepted" / "error: .." when
/// the library returns; a panic is reported as "panic: .."; a stack overflow ends the process with SIGABRT / SIGSEGV.
pub fn run_crash_probe(name: &str) -> String {
  if name.starts_with("refusals-under-memory-limit") {
    return run_memory_probe(name);
  }
  let links: usize = name.rsplit('-').next().and_then(|n| n.parse().ok()).unwrap_or(128);
  let mut issuer = Party::new("issuer", false, 0);
  let _ = issuer.gen_method("sign", Some(1));
  let c = serde_json::json!({
    "@context": "https://www.w3.org/2018/credentials/v1",
    "id": "https://cred.example/sd/chain",
    "type": ["VerifiableCredential", "SimSdCredential"],
    "issuer": issuer.did,
    "issuanceDate": crate::core::time::rfc3339(ctx::BASE_TIME - 10),
    "credentialSubject": {"id": "did:sim:holder0", "name": "Holder"}
  });
  let cred = Credential::<Object>::from_json_value(c).expect("probe credential");
  let payload = cred.serialize_jwt(None).expect("probe credential serialises");
  let mut claims: Value = serde_json::from_str(&payload).expect("claims are JSON");
  // innermost first
  let mut disclosures: Vec<String> = Vec::with_capacity(links);
  let mut inner = crate::core::b64::encode(serde_json::json!(["c2FsdA", "leaf", "value"]).to_string().as_bytes());
  for i in 1..links {
    let d = serde_json::json!([format!("s{i}"), "n", {"_sd": [digest_of(&inner)]}]).to_string();
    disclosures.push(inner);
    inner = crate::core::b64::encode(d.as_bytes());
  }
  claims["vc"]["credentialSubject"]["_sd"] = serde_json::json!([digest_of(&inner)]);
  disclosures.push(inner);
  disclosures.reverse();
  let opts = JwsSignatureOptions::default().typ("sd-jwt".to_owned());
  let jwt = sign_raw(&issuer, "sign", claims.to_string().as_bytes(), &opts).expect("issuer signs");
  let issuer_doc: CoreDocument = issuer.doc.core().clone();
  let worker = std::thread::Builder::new().stack_size(2 * 1024 * 1024).spawn(move || {
    let sd = SdJwt::new(jwt, disclosures, None);
    let validator = SdJwtCredentialValidator::with_signature_verifier(EdDSAJwsVerifier::default(), SdObjectDecoder::new_with_sha256());
    let r = std::panic::catch_unwind(std::panic::AssertUnwindSafe(|| {
      validator.validate_credential::<_, Object>(&sd, &issuer_doc, &JwtCredentialValidationOptions::default(), FailFast::FirstError)
    }));
    match r {
      Ok(Ok(_)) => "accepted".to_owned(),
      Ok(Err(e)) => format!("error: {e}"),
      Err(_) => "panic".to_owned(),
    }
  });
  match worker.map(|w| w.join()) {
    Ok(Ok(s)) => s,
    Ok(Err(_)) => "panic: verifier thread".to_owned(),
    Err(e) => format!("harness: cannot spawn verifier thread: {e}"),
  }
}

/// Collects every digest mentioned in `_sd` arrays and `...` array entries of a JSON value.
fn digests_in(v: &Value, out: &mut BTreeSet<String>) {
  match v {
    Value::Object(o) => {
      for (k, val) in o {
        if k == "_sd" {
          if let Some(a) = val.as_array() {
            for d in a {
              if let Some(s) = d.as_str() {
                out.insert(s.to_owned());
              }
            }
          }
        } else if k == "..." {
          if let Some(s) = val.as_str() {
            out.insert(s.to_owned());
          }
        } else {
          digests_in(val, out);
        }
      }
    }
    Value::Array(a) => {
      for x in a {
        digests_in(x, out);
      }
    }
    _ => {}
  }
}

/// Value carried by a disclosure string (last element of the decoded JSON array), if it decodes.
fn disclosure_value(d: &str) -> Option<Value> {
  let bytes = b64url_decode(d)?;
  let v: Value = serde_json::from_slice(&bytes).ok()?;
  v.as_array().and_then(|a| a.last().cloned())
}

/// Which of the supplied disclosures are bound to the signed claims (directly or through other bound disclosures).
fn bound_disclosures(signed_claims: &Value, supplied: &[String]) -> Vec<bool> {
  let mut reachable: BTreeSet<String> = BTreeSet::new();
  digests_in(signed_claims, &mut reachable);
  let digests: Vec<String> = supplied.iter().map(|d| digest_of(d)).collect();
  let mut expanded = vec![false; supplied.len()];
  loop {
    let mut progress = false;
    for i in 0..supplied.len() {
      if !expanded[i] && reachable.contains(&digests[i]) {
        expanded[i] = true;
        progress = true;
        if let Some(v) = disclosure_value(&supplied[i]) {
          digests_in(&v, &mut reachable);
        }
      }
    }
    if !progress {
      break;
    }
  }
  expanded
}

#[derive(Clone)]
struct Concealed {
  /// path inside the credential JSON (without the leading /vc)
  cred_path: Vec<String>,
  disclosure: String,
  parent: Option<usize>,
}

#[derive(Clone)]
struct Issued {
  nonce: Option<String>,
  jwt: String,
  concealed: Vec<Concealed>,
  /// the credential the issuer passed in (full, before concealment)
  truth: Value,
  issuer_kid: String,
}

fn remove_path(v: &mut Value, path: &[String]) {
  if path.is_empty() {
    return;
  }
  let mut cur = v;
  for seg in &path[..path.len() - 1] {
    cur = match cur {
      Value::Object(o) => match o.get_mut(seg) {
        Some(x) => x,
        None => return,
      },
      Value::Array(a) => match seg.parse::<usize>().ok().and_then(|i| a.get_mut(i)) {
        Some(x) => x,
        None => return,
      },
      _ => return,
    };
  }
  let last = &path[path.len() - 1];
  match cur {
    Value::Object(o) => {
      o.remove(last);
    }
    Value::Array(a) => {
      if let Ok(i) = last.parse::<usize>() {
        if i < a.len() {
          a[i] = Value::Null; // marker, filtered below
        }
      }
    }
    _ => {}
  }
}

fn drop_empty_objects_from_arrays(v: &mut Value) {
  match v {
    Value::Array(a) => {
      a.retain(|x| !x.as_object().map(|o| o.is_empty()).unwrap_or(false));
      for x in a {
        drop_empty_objects_from_arrays(x);
      }
    }
    Value::Object(o) => {
      for (_, x) in o.iter_mut() {
        drop_empty_objects_from_arrays(x);
      }
    }
    _ => {}
  }
}

fn strip_null_markers(v: &mut Value) {
  match v {
    Value::Array(a) => {
      a.retain(|x| !x.is_null());
      for x in a {
        strip_null_markers(x);
      }
    }
    Value::Object(o) => {
      for (_, x) in o.iter_mut() {
        strip_null_markers(x);
      }
    }
    _ => {}
  }
}

pub fn run(_params: &Params) {
  let mut clock = Clock { now: ctx::BASE_TIME };
  let mut ledger = Ledger::default();
  // ---- parties ----
  let mut issuer = Party::new("issuer", ctx::choose(2) == 0, 0);
  issuer.skew = ctx::range(-5, 5);
  clock.enter(issuer.skew);
  let _ = issuer.gen_method("sign", Some(1));
  let n_holders = 1 + ctx::choose(2);
  let mut holders: Vec<Party> = Vec::new();
  let mut foreign_refs: Vec<Option<String>> = Vec::new();
  for i in 0..n_holders {
    let mut h = Party::new("holder", ctx::choose(2) == 0, i);
    h.skew = ctx::range(-5, 5);
    clock.enter(h.skew);
    let _ = h.gen_method("kb", Some(0));
    let mut fref: Option<String> = None;
    if ctx::choose(2) == 0 {
      let _ = h.gen_method("alt", None);
      if ctx::chance(1, 3) {
        // A document its owner assembled elsewhere: a relationship REFERS to a method of another DID whose fragment
        // equals the holder's own general-purpose #alt (which is attached to no relationship). The reference does not
        // name key material of this document.
        let reference = "did:sim:adversary0#alt".to_owned();
        let mut dj = serde_json::to_value(h.doc.core()).unwrap();
        let key = ["authentication", "assertionMethod"][ctx::choose(2)];
        let mut arr = dj.get(key).and_then(|a| a.as_array().cloned()).unwrap_or_default();
        let at = ctx::choose(arr.len() + 1);
        arr.insert(at, Value::from(reference.clone()));
        dj[key] = Value::Array(arr);
        if let Ok(core) = identity_document::document::CoreDocument::from_json_value(dj) {
          h.doc = match &h.doc {
            AnyDoc::Core(_) => AnyDoc::Core(core),
            AnyDoc::Iota(_) => AnyDoc::Iota(identity_iota_core::IotaDocument::from(core)),
          };
          ctx::stat("probe.foreign_reference_sharing_own_fragment");
          fref = Some(reference);
        }
      }
    }
    foreign_refs.push(fref);
    holders.push(h);
  }
  let mut adv = Party::new("adversary", false, 0);
  clock.enter(0);
  let _ = adv.gen_method("adv", None);
  let _ = ledger.publish(&mut issuer, clock.now);
  for h in holders.iter_mut() {
    let _ = ledger.publish(h, clock.now);
  }
  let _ = ledger.publish(&mut adv, clock.now);

  ctx::set_clock(clock.now);
  let kb_default_opts = KeyBindingJWTValidationOptions::default();
  let mut issued: Vec<Issued> = Vec::new();
  let mut accepted_with_other_typ: Option<String> = None;
  let mut accepted_zero_disclosure_hash = false;
  let mut old_kbs: Vec<String> = Vec::new();
  let mut nontrivial = false;
  let rounds = if ctx::chance(1, 50) {
    ctx::stat("probe.long_history");
    12 + ctx::choose(12)
  } else {
    2 + ctx::choose(5)
  };
  for round in 0..rounds {
    clock.advance(120);
    // ---- issue ----
    if issued.is_empty() || ctx::choose(3) == 0 {
      let now_i = clock.enter(issuer.skew);
      let holder_did = holders[ctx::choose(holders.len())].did.clone();
      let expiry = match ctx::choose(3) {
        0 => None,
        1 => Some(now_i + 3600),
        _ => Some(now_i + 5 + ctx::choose(60) as i64),
      };
      let mut c = serde_json::json!({
        "@context": "https://www.w3.org/2018/credentials/v1",
        "id": format!("https://cred.example/sd/{round}"),
        "type": ["VerifiableCredential", "SimSdCredential"],
        "issuer": issuer.did,
        "issuanceDate": crate::core::time::rfc3339(now_i - 10),
        "credentialSubject": {
          "id": holder_did,
          "name": format!("Holder {round}"),
          "level": round,
          "address": {"street": "Sim Road 1", "country": "SL"},
          "tags": ["alpha", "beta", "gamma"]
        }
      });
      // claims of other JSON shapes that are never concealed: empty objects and arrays inside arrays, nested
      if ctx::choose(4) == 0 {
        c["credentialSubject"]["slots"] = serde_json::json!([{}, {"name": "Algebra"}, [{}], {}, []]);
        ctx::stat("probe.claims_with_empty_objects_in_arrays");
      }
      if let Some(e) = expiry {
        c["expirationDate"] = crate::core::time::rfc3339(e).into();
      }
      let Ok(cred) = Credential::<Object>::from_json_value(c) else { continue };
      let truth = serde_json::to_value(&cred).unwrap();
      let Ok(mut payload) = cred.serialize_jwt(None) else { continue };
      // An issuer that follows the SD-JWT draft binds the credential to a key with a confirmation claim (`cnf.jwk`):
      // the key of a holder - not necessarily the one whose document the verifier will later pass in - or of somebody
      // else altogether. Whatever it names, the KB-JWT has to verify under a key of the SUPPLIED holder document.
      if ctx::choose(3) == 0 {
        let who: &Party = match ctx::choose(3) {
          0 => &holders[ctx::choose(holders.len())],
          1 => &holders[holders.len() - 1],
          _ => &adv,
        };
        let frag = if std::ptr::eq(who, &adv) { "adv" } else { "kb" };
        let jwk: Option<Value> = {
          let j = who.core_json();
          let mut found = None;
          for k in ["verificationMethod", "authentication", "assertionMethod", "keyAgreement", "capabilityInvocation", "capabilityDelegation"] {
            if let Some(a) = j.get(k).and_then(|a| a.as_array()) {
              for m in a {
                if m.get("id").and_then(|i| i.as_str()).map(|i| i.ends_with(&format!("#{frag}"))).unwrap_or(false) {
                  found = m.get("publicKeyJwk").cloned();
                }
              }
            }
          }
          found
        };
        if let (Some(jwk), Ok(mut v)) = (jwk, serde_json::from_str::<Value>(&payload)) {
          v["cnf"] = serde_json::json!({ "jwk": jwk });
          payload = v.to_string();
          ctx::stat("probe.sd_jwt_with_confirmation_claim");
        }
      }
      let Ok(mut enc) = SdObjectEncoder::new(&payload) else { continue };
      let mut concealed: Vec<Concealed> = Vec::new();
      let salt = || Some(crate::core::b64::encode(ctx::bytes(16)));
      // leaf claims
      for leaf in ["name", "level"] {
        if ctx::choose(2) == 0 {
          if let Ok(d) = enc.conceal(&format!("/vc/credentialSubject/{leaf}"), salt()) {
            concealed.push(Concealed {
              cred_path: vec!["credentialSubject".into(), leaf.into()],
              disclosure: d.to_string(),
              parent: None,
            });
          }
        }
      }
      // array element; one time in four EVERY element of the array (a holder who then discloses none of them presents
      // an array of which nothing is left)
      if ctx::choose(2) == 0 {
        let idxs: Vec<usize> = if ctx::choose(4) == 0 {
          ctx::stat("probe.every_array_element_concealed");
          vec![0, 1, 2]
        } else {
          vec![ctx::choose(3)]
        };
        for idx in idxs {
          if let Ok(d) = enc.conceal(&format!("/vc/credentialSubject/tags/{idx}"), salt()) {
            ctx::stat("probe.array_disclosure");
            concealed.push(Concealed {
              cred_path: vec!["credentialSubject".into(), "tags".into(), idx.to_string()],
              disclosure: d.to_string(),
              parent: None,
            });
          }
        }
      }
      // nested: child first, then (sometimes) its parent object
      if ctx::choose(2) == 0 {
        if let Ok(d) = enc.conceal("/vc/credentialSubject/address/street", salt()) {
          let child = concealed.len();
          concealed.push(Concealed {
            cred_path: vec!["credentialSubject".into(), "address".into(), "street".into()],
            disclosure: d.to_string(),
            parent: None,
          });
          // one time in three the only other member of the object is concealed too: a holder who discloses neither
          // presents an object of which nothing is left
          let mut second_child: Option<usize> = None;
          if ctx::choose(3) == 0 {
            if let Ok(d2) = enc.conceal("/vc/credentialSubject/address/country", salt()) {
              ctx::stat("probe.every_member_of_an_object_concealed");
              second_child = Some(concealed.len());
              concealed.push(Concealed {
                cred_path: vec!["credentialSubject".into(), "address".into(), "country".into()],
                disclosure: d2.to_string(),
                parent: None,
              });
            }
          }
          if ctx::choose(2) == 0 {
            if let Ok(dp) = enc.conceal("/vc/credentialSubject/address", salt()) {
              ctx::stat("probe.nested_disclosure");
              let parent = concealed.len();
              concealed.push(Concealed {
                cred_path: vec!["credentialSubject".into(), "address".into()],
                disclosure: dp.to_string(),
                parent: None,
              });
              concealed[child].parent = Some(parent);
              if let Some(c2) = second_child {
                concealed[c2].parent = Some(parent);
              }
            }
          }
        }
      }
      if ctx::choose(2) == 0 {
        enc.add_sd_alg_property();
      }
      // (decoy digests are not used: sd-jwt-payload draws them from the OS RNG, for which there is no seam)
      let Ok(encoded) = enc.try_to_string() else { continue };
      let mut opts = JwsSignatureOptions::default().typ("sd-jwt".to_owned());
      let issuer_nonce = if ctx::chance(1, 3) { Some(format!("inonce{}", ctx::choose(100))) } else { None };
      if let Some(n) = &issuer_nonce {
        opts = opts.nonce(n.clone());
      }
      if let Ok(jwt) = sign_raw(&issuer, "sign", encoded.as_bytes(), &opts) {
        ctx::trace(format!("round {round}: issuer signs SD-JWT with {} concealed claims", concealed.len()));
        issued.push(Issued {
          nonce: issuer_nonce,
          jwt,
          concealed,
          truth,
          issuer_kid: format!("{}#sign", issuer.did),
        });
      }
      continue;
    }
    // ---- sometimes the holder rotates its key (stale resolution then matters) ----
    if ctx::chance(1, 6) {
      let hi = ctx::choose(holders.len());
      clock.enter(holders[hi].skew);
      let h = &mut holders[hi];
      let id = DIDUrl::parse(format!("{}#kb", h.did)).unwrap();
      let st = &h.storage;
      let ok = match &mut h.doc {
        AnyDoc::Core(d) => block_on(d.purge_method(st, &id)).is_ok(),
        AnyDoc::Iota(d) => block_on(d.purge_method(st, &id)).is_ok(),
      };
      if ok {
        h.methods.retain(|m| m.0 != "kb");
        let _ = h.gen_method("kb", Some(0));
        let _ = ledger.publish(h, clock.now);
        ctx::trace(format!("round {round}: holder {hi} rotates #kb"));
      }
    }
    // ---- present ----
    let it = issued[ctx::choose(issued.len())].clone();
    let hi = ctx::choose(holders.len());
    let now_h = clock.enter(holders[hi].skew);
    let holder = &holders[hi];
    // disclose a subset (a child needs its parent)
    let mut chosen: Vec<bool> = it.concealed.iter().map(|_| ctx::choose(2) == 0).collect();
    for i in 0..chosen.len() {
      if let Some(p) = it.concealed[i].parent {
        if chosen[i] && !chosen[p] {
          chosen[i] = false;
        }
      }
    }
    let mut disclosures: Vec<String> = it
      .concealed
      .iter()
      .zip(chosen.iter())
      .filter(|(_, c)| **c)
      .map(|(c, _)| c.disclosure.clone())
      .collect();
    let nonce = format!("nonce{}", ctx::choose(1000));
    let aud = "https://verifier.example".to_owned();
    let iat = now_h - [0i64, 1, 30][ctx::choose(3)] + if ctx::chance(1, 8) { 5 } else { 0 };
    let kb_claims = KeyBindingJwtClaims::new(&Sha256Hasher::new(), it.jwt.clone(), disclosures.clone(), nonce.clone(), aud.clone(), iat);
    let kb_payload = serde_json::to_string(&kb_claims).unwrap();
    let mut kb_opts = JwsSignatureOptions::default().typ(KeyBindingJwtClaims::KB_JWT_HEADER_TYP.to_owned());
    // one holder in five repeats the nonce in the protected header of the KB-JWT as well (a JWS header nonce)
    let kb_header_nonce: Option<String> = if ctx::choose(5) == 0 { Some(nonce.clone()) } else { None };
    if let Some(hn) = &kb_header_nonce {
      kb_opts = kb_opts.nonce(hn.clone());
      ctx::stat("probe.kb_jwt_with_header_nonce");
    }
    let kb_frag = if holder.methods.iter().any(|m| m.0 == "alt") && ctx::choose(4) == 0 { "alt" } else { "kb" };
    let Ok(mut kb) = sign_raw(holder, kb_frag, kb_payload.as_bytes(), &kb_opts) else { continue };
    let kb_kid = format!("{}#{kb_frag}", holder.did);

    // ---- adversary / network on the presentation ----
    let mut moves: Vec<&'static str> = Vec::new();
    let mut kb_present = true;
    let n_moves = ctx::weighted(&[5, 4, 1]);
    for _ in 0..n_moves {
      match ctx::choose(12) {
        0 if !disclosures.is_empty() => {
          disclosures.remove(ctx::choose(disclosures.len()));
          ctx::stat("fault.adversary.drop_disclosure");
          moves.push("drop_disclosure");
        }
        1 if !disclosures.is_empty() => {
          let d = disclosures[ctx::choose(disclosures.len())].clone();
          disclosures.push(d);
          ctx::stat("fault.adversary.duplicate_disclosure");
          moves.push("duplicate_disclosure");
        }
        2 if disclosures.len() > 1 => {
          disclosures.reverse();
          ctx::stat("fault.adversary.reorder_disclosures");
          moves.push("reorder_disclosures");
        }
        3 => {
          let forged = if !disclosures.is_empty() && ctx::choose(4) == 0 {
            // a genuine disclosure with base64 padding appended: another string, whose digest is not among the signed ones
            ctx::stat("fault.adversary.padded_disclosure");
            format!("{}{}", disclosures[ctx::choose(disclosures.len())], ["=", "=="][ctx::choose(2)])
          } else if ctx::choose(3) == 0 {
            // not a disclosure at all: text of arbitrary length that ends in characters outside ASCII (whatever the
            // validator does with it - decode, quote it in an error - it must answer with an error)
            ctx::stat("fault.adversary.garbage_disclosure_non_ascii");
            format!("{}{}", "x".repeat(ctx::choose(300)), ["é", "ß", "€", "𝄞"][ctx::choose(4)].repeat(40 + ctx::choose(40)))
          } else {
            crate::core::b64::encode(format!("[\"{}\", \"level\", 99]", crate::core::b64::encode(ctx::bytes(8))).as_bytes())
          };
          disclosures.push(forged);
          ctx::stat("fault.adversary.forge_disclosure");
          moves.push("forge_disclosure");
        }
        4 => {
          // the adversary signs the same KB claims with its own key, claiming the holder's kid
          let o = JwsSignatureOptions::default()
            .typ(KeyBindingJwtClaims::KB_JWT_HEADER_TYP.to_owned())
            .kid(kb_kid.clone());
          if let Ok(k) = sign_raw(&adv, "adv", kb_payload.as_bytes(), &o) {
            kb = k;
            ctx::stat("fault.adversary.kb_other_key");
            moves.push("kb_other_key");
          }
        }
        5 if holders.len() > 1 => {
          // another holder signs the KB-JWT (its own kid)
          let other = &holders[(hi + 1) % holders.len()];
          if let Ok(k) = sign_raw(other, "kb", kb_payload.as_bytes(), &kb_opts) {
            kb = k;
            ctx::stat("fault.adversary.kb_other_holder");
            moves.push("kb_other_holder");
          }
        }
        6 => {
          // ("kb+jwt" is the typ the specification and the property name; the library's validator compares with the
          // constant of its pinned dependency, " kb+jwt" with a leading blank, and so refuses it: completeness is not
          // part of the statement, the refusal is counted as an observation)
          let o = JwsSignatureOptions::default().typ(["JWT", "kb-jwt", "sd-jwt", "kb+jwt"][ctx::choose(4)].to_owned());
          if let Ok(k) = sign_raw(holder, kb_frag, kb_payload.as_bytes(), &o) {
            kb = k;
            ctx::stat("fault.adversary.kb_wrong_typ");
            moves.push("kb_wrong_typ");
          }
        }
        7 if !old_kbs.is_empty() => {
          kb = old_kbs[ctx::choose(old_kbs.len())].clone();
          ctx::stat("fault.adversary.kb_stale_sd_hash");
          moves.push("kb_stale");
        }
        8 => {
          kb_present = false;
          ctx::stat("fault.adversary.strip_kb");
          moves.push("strip_kb");
        }
        9 => {
          // a Byzantine holder signs KB claims whose sd_hash or nonce is a proper prefix / an extension of the right
          // value (or empty): equal-up-to-the-shorter-length is not equal
          let mut c = serde_json::to_value(&kb_claims).unwrap();
          let field = if ctx::choose(2) == 0 { "sd_hash" } else { "nonce" };
          let cur = c[field].as_str().unwrap_or("").to_owned();
          c[field] = match ctx::choose(3) {
            0 => Value::from(""),
            1 => Value::from(&cur[..cur.len() / 2]),
            _ => Value::from(format!("{cur}-2")),
          };
          if let Ok(k) = sign_raw(holder, kb_frag, c.to_string().as_bytes(), &kb_opts) {
            kb = k;
            ctx::stat("fault.adversary.kb_prefix_or_extension_value");
            moves.push("kb_prefix_value");
          }
        }
        10 if ctx::choose(2) == 0 => {
          // a holder whose clock library counts milliseconds: iat is a thousand times too large (the year ~55 000)
          let mut c = serde_json::to_value(&kb_claims).unwrap();
          c["iat"] = Value::from(iat * 1000);
          if let Ok(k) = sign_raw(holder, kb_frag, c.to_string().as_bytes(), &kb_opts) {
            kb = k;
            ctx::stat("fault.holder.kb_iat_in_milliseconds");
            moves.push("kb_iat_in_milliseconds");
          }
        }
        11 if ctx::choose(3) == 0 => {
          // a Byzantine holder writes a kid that ends in a percent-encoded octet (legal DID URL syntax): it names no
          // method of the holder document
          let kid = match ctx::choose(3) {
            0 => format!("{}%41", holder.did),
            1 => "did:sim:abc%20".to_owned(),
            _ => format!("{}%2Fx#{kb_frag}", holder.did),
          };
          let o = JwsSignatureOptions::default().typ(KeyBindingJwtClaims::KB_JWT_HEADER_TYP.to_owned()).kid(kid);
          if let Ok(k) = sign_raw(holder, kb_frag, kb_payload.as_bytes(), &o) {
            kb = k;
            ctx::stat("fault.adversary.kb_kid_ending_in_percent_encoded_octet");
            moves.push("kb_kid_percent_octet");
          }
        }
        10 | 11 if foreign_refs[hi].is_some() => {
          // a Byzantine holder signs with its general-purpose #alt key but names the foreign method its document
          // merely refers to: that id is not key material of the holder document
          let o = JwsSignatureOptions::default()
            .typ(KeyBindingJwtClaims::KB_JWT_HEADER_TYP.to_owned())
            .kid(foreign_refs[hi].clone().unwrap());
          // (queried by full id: the bare fragment is ambiguous in this document)
          if let Ok(k) = sign_raw(holder, &format!("{}#alt", holder.did), kb_payload.as_bytes(), &o) {
            kb = k;
            ctx::stat("fault.adversary.kb_kid_names_foreign_reference");
            moves.push("kb_kid_foreign_ref");
          }
        }
        _ => {}
      }
    }
    old_kbs.push(kb.clone());
    let sd = SdJwt::new(it.jwt.clone(), disclosures.clone(), if kb_present { Some(kb.clone()) } else { None });
    let mut wire = sd.presentation();
    if ctx::chance(1, 5) {
      let (s, pos, bit) = flip_bit(&wire);
      ctx::stat("fault.net.bitflip");
      ctx::sched("bitflip", (pos * 8 + bit as usize) as u64);
      wire = s;
      moves.push("bitflip");
    }
    for m in &moves {
      ctx::sched(m, 1);
    }
    if !moves.is_empty() {
      nontrivial = true;
    }
    clock.advance(20);

    // ---- verifier ----
    let Ok(received) = ctx::catch(|| SdJwt::parse(&wire)).unwrap_or_else(|_| SdJwt::parse("~")) else {
      ctx::trace(format!("round {round}: presentation {moves:?} does not parse as SD-JWT"));
      continue;
    };
    let validator = SdJwtCredentialValidator::with_signature_verifier(EdDSAJwsVerifier::default(), SdObjectDecoder::new_with_sha256());
    let verifier_skew = ctx::range(-2, 2);
    let mut v_now = clock.now + verifier_skew;
    if ctx::chance(1, 4) {
      ctx::stat("fault.clock.boundary");
      v_now = iat + ctx::range(-1, 1);
    }
    ctx::set_clock(v_now);

    // -- (1) validate_credential --
    let iv = ledger.latest(&issuer.did).unwrap_or(1);
    let Some((_iv, Ok(issuer_doc))) = ledger.resolve(&issuer.did, draw_lag(iv, 1)) else { continue };
    let issuer_json = serde_json::to_value(&issuer_doc).unwrap();
    // nonce of the issuer's JWS: the verifier configures the right one, another one or none
    let cred_nonce: Option<String> = match ctx::weighted(&[6, 1, 1]) {
      0 => it.nonce.clone(),
      1 => Some("someothernonce".to_owned()),
      _ => None,
    };
    let mut cvo = JwsVerificationOptions::default();
    if let Some(n) = &cred_nonce {
      cvo = cvo.nonce(n.clone());
    }
    let copts = JwtCredentialValidationOptions::default().verification_options(cvo);
    let res = ctx::catch(|| validator.validate_credential::<_, Object>(&received, &issuer_doc, &copts, FailFast::FirstError));
    match res {
      Err(p) => {
        ctx::violation("C16", "C16.error_never_crash", format!("validate_credential/panic/{}", moves.join("+")), format!("validate_credential panicked: {p}"));
        return;
      }
      Ok(res) => {
        // oracle
        let parsed = parse_compact(&received.jwt);
        let mut false_cond: Option<&'static str> = None;
        let mut bound_all = false;
        match &parsed {
          None => false_cond = Some("decode"),
          Some(p) => {
            let kid = p.header.get("kid").and_then(|k| k.as_str()).unwrap_or("");
            let x = doc_method(&issuer_json, kid, None)
              .and_then(|(_, jwk)| jwk.get("x").and_then(|x| x.as_str().map(str::to_owned)));
            let signing_input = format!("{}.{}", p.header_b64, p.payload_b64);
            let all: Vec<&Party> = std::iter::once(&issuer).chain(holders.iter()).chain(std::iter::once(&adv)).collect();
            let nonce_ok = p.header.get("nonce").and_then(|n| n.as_str()) == cred_nonce.as_deref();
            if !nonce_ok {
              ctx::stat("false.cred.nonce");
            }
            let sig_ok = nonce_ok
              && super::is_did_url(kid)
              && did_of_url(kid) == issuer.did
              && p.header.get("alg").and_then(|a| a.as_str()) == Some("EdDSA")
              && x.as_deref().map(|x| sig_truth(&all, signing_input.as_bytes(), &p.sig, x)).unwrap_or(false);
            if !sig_ok {
              false_cond = Some("issuer_signature");
            } else if let Some(claims) = &p.payload {
              let b = bound_disclosures(claims, &received.disclosures);
              let distinct: BTreeSet<&String> = received.disclosures.iter().collect();
              bound_all = b.iter().all(|x| *x) && distinct.len() == received.disclosures.len();
              if !bound_all {
                false_cond = Some("disclosure_unbound");
                ctx::stat("false.cred.disclosure_unbound");
              } else {
                let exp = it.truth.get("expirationDate").and_then(|v| v.as_str()).and_then(crate::core::time::parse_rfc3339_z);
                let iss_d = it.truth.get("issuanceDate").and_then(|v| v.as_str()).and_then(crate::core::time::parse_rfc3339_z).unwrap_or(0);
                if iss_d > v_now {
                  false_cond = Some("issuance_date");
                } else if exp.map(|e| e < v_now).unwrap_or(false) {
                  false_cond = Some("expiration_date");
                }
              }
            } else {
              false_cond = Some("claims");
            }
          }
        }
        let got: Vec<&'static str> = match &res {
          Ok(_) => vec![],
          Err(e) => variant_names(&e.validation_errors),
        };
        ctx::trace(format!(
          "round {round}: validate_credential {moves:?} ({} disclosures) -> {} ; expected false condition {false_cond:?}",
          received.disclosures.len(),
          if res.is_ok() { "Ok".to_owned() } else { format!("Err{got:?}") }
        ));
        ctx::sched("c", crate::core::tape::Fnv::of(false_cond.unwrap_or("-").as_bytes()));
        match &res {
          Ok(decoded) => {
            ctx::stat("probe.cred.accepted");
            if let Some(fc) = false_cond {
              ctx::violation(
                "C16",
                "C16.credential_accept_only_if_bound",
                format!("accepted-despite/{fc}/{}", moves.join("+")),
                format!("SD-JWT credential accepted although [{fc}] is false (moves {moves:?})"),
              );
            } else if bound_all && received.jwt == it.jwt {
              // fidelity: the issuer's credential restricted to the disclosed claims
              let mut want = it.truth.clone();
              let supplied: BTreeSet<&String> = received.disclosures.iter().collect();
              // remove undisclosed items; children before parents, higher array indices first
              let mut order: Vec<&Concealed> = it.concealed.iter().filter(|c| !supplied.contains(&c.disclosure)).collect();
              order.sort_by(|a, b| b.cred_path.len().cmp(&a.cred_path.len()));
              for c in order {
                remove_path(&mut want, &c.cred_path);
              }
              strip_null_markers(&mut want);
              let got_c = serde_json::to_value(&decoded.credential).unwrap();
              let mut want_without_empty_objects = want.clone();
              drop_empty_objects_from_arrays(&mut want_without_empty_objects);
              if got_c != want && got_c == want_without_empty_objects {
                // (one signature for this way of differing: every `{}` that is an array element is gone, nothing else)
                ctx::violation(
                  "C16",
                  "C16.reconstructed_credential_is_disclosed_subset",
                  "returned-credential-differs/empty-objects-dropped-from-arrays",
                  format!("returned {got_c}: the empty objects inside arrays of the issuer's credential {want} are gone"),
                );
              } else if got_c != want {
                ctx::violation(
                  "C16",
                  "C16.reconstructed_credential_is_disclosed_subset",
                  "returned-credential-differs",
                  format!("returned {got_c} but the issuer's credential restricted to the disclosed claims is {want}"),
                );
              }
            }
          }
          Err(_) => {
            ctx::stat("probe.cred.rejected");
            if false_cond.is_none() {
              ctx::stat("observation.cred_rejected_although_all_conditions_hold");
            }
          }
        }
      }
    }

    // -- (2) validate_key_binding_jwt --
    let hv = ledger.latest(&holder.did).unwrap_or(1);
    let lag = draw_lag(hv, 2);
    if lag > 0 {
      nontrivial = true;
    }
    let supply_other = holders.len() > 1 && ctx::chance(1, 8);
    let holder_for_doc = if supply_other { &holders[(hi + 1) % holders.len()] } else { holder };
    let Some((_v, Ok(holder_doc))) = ledger.resolve(&holder_for_doc.did, if supply_other { 0 } else { lag }) else { continue };
    let holder_json = serde_json::to_value(&holder_doc).unwrap();
    // options start from a fresh default value or from the verifier's long-lived one (built at the start of the run)
    let mut ko = if ctx::choose(2) == 0 {
      ctx::stat("probe.options_value_built_earlier");
      kb_default_opts.clone()
    } else {
      KeyBindingJWTValidationOptions::default()
    };
    let opt_nonce: Option<String> = match ctx::weighted(&[10, 2, 2, 1]) {
      0 => Some(nonce.clone()),
      1 => Some("another-session".to_owned()),
      2 => None,
      _ => Some(String::new()),
    };
    if let Some(n) = &opt_nonce {
      ko = ko.nonce(n.clone());
    }
    // the verifier's JWS options may carry a nonce of their own (a header nonce; a KB-JWT has none and the library
    // does not compare it for KB-JWTs): the nonce a KB-JWT is bound to is the one of the KB options, whatever that
    // other one says - also when it happens to equal the nonce claim of the token
    let mut jws_nonce: Option<String> = None;
    if ctx::choose(6) == 0 || (kb_header_nonce.is_some() && ctx::choose(2) == 0) {
      jws_nonce = Some(if ctx::choose(3) != 0 { nonce.clone() } else { "header-nonce".to_owned() });
      ctx::stat("probe.kb_jws_options_with_a_nonce_of_their_own");
    }
    let opt_aud: Option<String> = match ctx::weighted(&[5, 1, 1, 1]) {
      0 => Some(aud.clone()),
      1 => Some("https://other-verifier.example".to_owned()),
      3 => {
        // another STRING that a URL parser reads as the same URL: aud is compared as the string it is
        ctx::stat("probe.kb_aud_url_twin");
        Some(["HTTPS://verifier.example", "https://verifier.example:443", "https://verifier.example/", "https://Verifier.Example", "https://verifier.example/a/.."][ctx::choose(5)].to_owned())
      }
      _ => None,
    };
    if let Some(a) = &opt_aud {
      ko = ko.aud(a.clone());
    }
    let earliest: Option<i64> = if ctx::chance(1, 3) { Some(iat + ctx::range(-1, 1)) } else { None };
    let latest: Option<i64> = if ctx::chance(1, 3) { Some(iat + ctx::range(-1, 1)) } else { None };
    if let Some(e) = earliest {
      ko = ko.earliest_issuance_date(ts(e));
    }
    if let Some(l) = latest {
      ko = ko.latest_issuance_date(ts(l));
    }
    let scope: Option<Scope> = match ctx::weighted(&[4, 2, 1]) {
      0 => None,
      1 => Some(Some(0)),
      _ => Some(Some(1)),
    };
    let mut jo = JwsVerificationOptions::default();
    if let Some(s) = scope {
      jo = jo.method_scope(to_scope(s));
    }
    if let Some(n) = &jws_nonce {
      jo = jo.nonce(n.clone());
    }
    // the verifier may name the method itself instead of trusting the kid (the scope still applies to it)
    let opt_method_id: Option<String> = match ctx::weighted(&[8, 2, 1, 1]) {
      0 => None,
      1 => Some(kb_kid.clone()),
      2 => Some(format!("{}#{}", holder.did, if kb_frag == "kb" { "alt" } else { "kb" })),
      _ => Some("did:sim:adversary0#adv".to_owned()),
    };
    if let Some(m) = &opt_method_id {
      ctx::stat("probe.kb_method_id_configured");
      jo = jo.method_id(identity_did::DIDUrl::parse(m).unwrap());
    }
    ko = ko.jws_verifier_options(jo);
    let res = ctx::catch(|| validator.validate_key_binding_jwt(&received, &holder_doc, &ko));
    let res = match res {
      Ok(r) => r,
      Err(p) => {
        // classify the situation structurally
        let kbp = received.key_binding_jwt.as_deref().and_then(parse_compact);
        let situation = match &kbp {
          None => "kb-undecodable",
          Some(_) => "kb-signature-does-not-verify",
        };
        ctx::violation(
          "C16",
          "C16.error_never_crash",
          format!("validate_key_binding_jwt/panic/{situation}"),
          format!("validate_key_binding_jwt panicked (moves {moves:?}): {p}"),
        );
        return;
      }
    };
    // oracle
    let mut want: Option<&'static str> = None;
    let mut zero_disclosure_hash_seen = false;
    let mut label = "-";
    match &received.key_binding_jwt {
      None => {
        want = Some("MissingKeyBindingJwt");
        label = "missing";
      }
      Some(kbs) => {
        let sd_ok = parse_compact(&received.jwt).map(|p| p.payload.map(|v| v.is_object()).unwrap_or(false));
        match sd_ok {
          None => {
            want = Some("JwtValidationError");
            label = "sd_jwt_decode";
          }
          Some(false) => {
            want = Some("DeserializationError");
            label = "sd_jwt_claims";
          }
          Some(true) => match parse_compact(kbs) {
            None => {
              want = Some("JwtValidationError");
              label = "kb_decode";
            }
            Some(p) => {
              let typ = p.header.get("typ").and_then(|t| t.as_str());
              if typ != Some(KeyBindingJwtClaims::KB_JWT_HEADER_TYP) {
                want = Some("InvalidHeaderTypValue");
                label = "typ";
                ctx::stat("false.kb.typ");
              } else {
                let kid = opt_method_id.as_deref().unwrap_or_else(|| p.header.get("kid").and_then(|k| k.as_str()).unwrap_or(""));
                let method = if super::is_did_url(kid) { doc_method(&holder_json, kid, scope) } else { None };
                match method {
                  None => {
                    want = Some("JwtValidationError");
                    label = "method_lookup";
                  }
                  Some((_, jwk)) => {
                    let x = jwk.get("x").and_then(|x| x.as_str()).unwrap_or("");
                    let signing_input = format!("{}.{}", p.header_b64, p.payload_b64);
                    let all: Vec<&Party> = std::iter::once(&issuer).chain(holders.iter()).chain(std::iter::once(&adv)).collect();
                    let sig_ok = p.header.get("alg").and_then(|a| a.as_str()) == Some("EdDSA")
                      && sig_truth(&all, signing_input.as_bytes(), &p.sig, x);
                    if !sig_ok {
                      want = Some("JwtValidationError");
                      label = "signature";
                      ctx::stat("false.kb.signature");
                    } else {
                      let claims = p.payload.clone().unwrap_or(Value::Null);
                      // sd_hash is taken over the presentation without the KB-JWT: "<jwt>~<d1>~...~<dn>~", which is
                      // "<jwt>~" when nothing is disclosed. The library (validator and the pinned sd-jwt-payload that
                      // creates the claims) hashes "<jwt>~~" in that case, a string that is never presented: honest
                      // holders of this library are judged by the library's own formula so that the other conjuncts stay
                      // under observation, and the discrepancy is reported once per run (known finding).
                      // (parsing "<jwt>~<kb>" yields one empty disclosure rather than none)
                      let nothing_disclosed = received.disclosures.iter().all(|d| d.is_empty());
                      let hash_payload = if nothing_disclosed {
                        format!("{}~", received.jwt)
                      } else {
                        format!("{}~{}~", received.jwt, received.disclosures.join("~"))
                      };
                      let mut digest = digest_of(&hash_payload);
                      if nothing_disclosed {
                        let library_digest = digest_of(&format!("{}~~", received.jwt));
                        if claims.get("sd_hash").and_then(|v| v.as_str()) == Some(library_digest.as_str()) {
                          zero_disclosure_hash_seen = true;
                          digest = library_digest;
                        }
                      }
                      let c_iat = claims.get("iat").and_then(|v| v.as_i64());
                      if claims.get("sd_hash").and_then(|v| v.as_str()) != Some(digest.as_str()) {
                        want = Some("InvalidDigest");
                        label = "digest";
                        ctx::stat("false.kb.digest");
                      } else if opt_nonce.is_some() && claims.get("nonce").and_then(|v| v.as_str()) != opt_nonce.as_deref() {
                        want = Some("InvalidNonce");
                        label = "nonce";
                        ctx::stat("false.kb.nonce");
                      } else if opt_aud.is_some() && claims.get("aud").and_then(|v| v.as_str()) != opt_aud.as_deref() {
                        want = Some("AudianceMismatch");
                        label = "aud";
                        ctx::stat("false.kb.aud");
                      } else if let Some(i) = c_iat {
                        let too_early = earliest.map(|e| i < e).unwrap_or(false);
                        let too_late = match latest {
                          Some(l) => i > l,
                          None => i > v_now,
                        };
                        if too_early || too_late {
                          want = Some("IssuanceDate");
                          label = "iat";
                          ctx::stat("false.kb.iat");
                        }
                      }
                    }
                  }
                }
              }
            }
          },
        }
      }
    }
    let got: &'static str = match &res {
      Ok(_) => "Ok",
      Err(e) => e.into(),
    };
    ctx::trace(format!(
      "round {round}: validate_key_binding_jwt {moves:?} scope={:?} -> {got} ; expected first false condition [{label}]",
      scope.map(crate::engines::stor::scope_name)
    ));
    ctx::sched("k", crate::core::tape::Fnv::of(label.as_bytes()));
    if want.is_some() {
      nontrivial = true;
    }
    let bitflipped = moves.contains(&"bitflip");
    match (&res, want) {
      (Ok(_), Some(w)) => ctx::violation(
        "C16",
        "C16.kb_accept_only_if_fully_bound",
        format!("accepted-despite/{label}/{}", moves.join("+")),
        format!("KB-JWT accepted although [{label}] is false (expected {w}; moves {moves:?})"),
      ),
      (Ok(claims), None) => {
        ctx::stat("probe.kb.accepted");
        // "accepted only if it is typed kb+jwt": the typ as received, compared with the literal of the statement
        let typ_received = received
          .key_binding_jwt
          .as_deref()
          .and_then(parse_compact)
          .and_then(|p| p.header.get("typ").and_then(|t| t.as_str().map(str::to_owned)));
        if typ_received.as_deref() != Some("kb+jwt") {
          accepted_with_other_typ = typ_received;
        }
        if zero_disclosure_hash_seen {
          accepted_zero_disclosure_hash = true;
        }
        if opt_nonce.as_ref().map(|o| *o != claims.nonce).unwrap_or(false) {
          ctx::violation("C16", "C16.kb_accept_only_if_fully_bound", "accepted/nonce-differs", "returned KB claims carry another nonce than the configured one");
        }
      }
      (Err(_), None) => {
        ctx::stat("probe.kb.rejected");
        ctx::stat("observation.kb_rejected_although_all_conditions_hold");
      }
      (Err(_), Some(w)) => {
        ctx::stat("probe.kb.rejected");
        let ok = if bitflipped {
          true // a flipped bit may change header semantics the harness model does not replicate; any error is right
        } else {
          got == w
        };
        if !ok {
          ctx::violation(
            "C16",
            "C16.error_identifies_condition",
            format!("want={w}/got={got}/{}", moves.join("+")),
            format!("first false condition is [{label}] (expects {w}) but the error is {got}"),
          );
        }
      }
    }
    let _ = (KeyBindingJwtError::MissingKeyBindingJwt, is_did(""), CoreDocument::id);
    if ctx::has_violation() {
      break;
    }
  }
  // ---- forged issuer: the adversary signs an SD-JWT that names the honest issuer in `iss` (possibly concealed and
  // then disclosed) under its own kid; validated against the adversary's own, correctly resolved document the
  // signature is fine, but the credential's issuer is not the signer ----
  if ctx::choose(5) == 0 {
    let now_a = clock.enter(0);
    let c = serde_json::json!({
      "@context": "https://www.w3.org/2018/credentials/v1",
      "type": ["VerifiableCredential"],
      "issuer": issuer.did,
      "issuanceDate": crate::core::time::rfc3339(now_a - 10),
      "credentialSubject": {"id": holders[0].did, "level": 99}
    });
    if let Ok(cred) = Credential::<Object>::from_json_value(c) {
      if let Ok(payload) = cred.serialize_jwt(None) {
        if let Ok(mut enc) = SdObjectEncoder::new(&payload) {
          let mut disclosures: Vec<String> = Vec::new();
          let conceal_iss = ctx::choose(2) == 0;
          if conceal_iss {
            if let Ok(d) = enc.conceal("/iss", Some(crate::core::b64::encode(ctx::bytes(16)))) {
              disclosures.push(d.to_string());
            }
          }
          if ctx::choose(2) == 0 {
            if let Ok(d) = enc.conceal("/vc/credentialSubject/level", Some(crate::core::b64::encode(ctx::bytes(16)))) {
              disclosures.push(d.to_string());
            }
          }
          if let Ok(encoded) = enc.try_to_string() {
            let opts = JwsSignatureOptions::default().typ("sd-jwt".to_owned());
            if let Ok(jwt) = sign_raw(&adv, "adv", encoded.as_bytes(), &opts) {
              ctx::stat("fault.adversary.forged_issuer_claim");
              ctx::sched("forged_iss", conceal_iss as u64);
              let sd = SdJwt::new(jwt, disclosures, None);
              if let Some((_v, Ok(adv_doc))) = ledger.resolve(&adv.did, 0) {
                ctx::set_clock(clock.now);
                let validator =
                  SdJwtCredentialValidator::with_signature_verifier(EdDSAJwsVerifier::default(), SdObjectDecoder::new_with_sha256());
                let res = ctx::catch(|| {
                  validator.validate_credential::<_, Object>(&sd, &adv_doc, &JwtCredentialValidationOptions::default(), FailFast::FirstError)
                });
                let situation = if conceal_iss { "iss-concealed-and-disclosed" } else { "iss-in-the-clear" };
                // the same forgery against a LIST of trusted issuers that contains both the signer and the issuer it
                // names: the signer's document is found by the kid, the named issuer is still not the signer
                if let Some((_v, Ok(issuer_doc2))) = ledger.resolve(&issuer.did, 0) {
                  let docs = if ctx::choose(2) == 0 { vec![issuer_doc2, adv_doc.clone()] } else { vec![adv_doc.clone(), issuer_doc2] };
                  ctx::stat("probe.sd_jwt_verify_signature_multi_issuer");
                  match ctx::catch(|| validator.verify_signature::<_, Object>(&sd, &docs, &identity_document::verifiable::JwsVerificationOptions::default())) {
                    Err(p) => ctx::violation("C16", "C16.error_never_crash", format!("verify_signature/panic/forged-issuer/{situation}"), format!("panicked: {p}")),
                    Ok(Ok(_)) => ctx::violation(
                      "C16",
                      "C16.credential_accept_only_if_bound",
                      format!("verify_signature-accepted-despite/issuer-is-not-the-signer/{situation}"),
                      format!("verify_signature over the documents of {} and {} accepted an SD-JWT signed by the former that names the latter as issuer", adv.did, issuer.did),
                    ),
                    Ok(Err(_)) => {}
                  }
                }
                match res {
                  Err(p) => ctx::violation("C16", "C16.error_never_crash", format!("validate_credential/panic/forged-issuer/{situation}"), format!("panicked: {p}")),
                  Ok(Ok(_)) => ctx::violation(
                    "C16",
                    "C16.credential_accept_only_if_bound",
                    format!("accepted-despite/issuer-is-not-the-signer/{situation}"),
                    format!("an SD-JWT signed by {} but naming {} as issuer was accepted", adv.did, issuer.did),
                  ),
                  Ok(Err(e)) => {
                    let got = variant_names(&e.validation_errors);
                    ctx::trace(format!("forged issuer ({situation}) -> Err{got:?}"));
                    if got != vec!["IdentifierMismatch"] {
                      ctx::violation(
                        "C16",
                        "C16.error_identifies_condition",
                        format!("want=IdentifierMismatch/got={}/forged-issuer", got.join("+")),
                        format!("the only false condition is issuer == signer DID but errors are {got:?}"),
                      );
                    }
                  }
                }
              }
            }
          }
        }
      }
    }
    nontrivial = true;
  }
  if accepted_zero_disclosure_hash && !ctx::has_violation() {
    ctx::violation(
      "C16",
      "C16.kb_accept_only_if_fully_bound",
      "accepted/sd_hash-over-a-string-that-is-not-the-presentation-when-nothing-is-disclosed",
      "a KB-JWT presented with zero disclosures was accepted with an sd_hash over \"<jwt>~~\"; the presented token without its KB-JWT is \"<jwt>~\"",
    );
  }
  // reported once per run and after everything else, so that the remaining conjuncts stay under observation
  if let Some(typ) = accepted_with_other_typ {
    if !ctx::has_violation() {
      ctx::violation(
        "C16",
        "C16.kb_accept_only_if_fully_bound",
        if typ == KeyBindingJwtClaims::KB_JWT_HEADER_TYP { "accepted/typ-is-the-dependency-constant-not-kb+jwt" } else { "accepted/typ-is-not-kb+jwt" },
        format!("a KB-JWT whose header typ is {typ:?} was accepted; the statement (and the specification) demand \"kb+jwt\""),
      );
    }
  }
  // ---- an issuer token that declares a hash algorithm the verifier does not have: no KB-JWT can be bound to it ----
  if ctx::chance(1, 8) {
    let h = &holders[0];
    clock.advance(30);
    let now_i = clock.enter(issuer.skew);
    let other_alg = ["sha-512", "sha3-256", "SHA-256"][ctx::choose(3)];
    let claims = serde_json::json!({
      "iss": issuer.did,
      "nbf": now_i - 10,
      "jti": "https://cred.example/otherhash",
      "sub": h.did,
      "_sd_alg": other_alg,
      "_sd": [],
      "vc": {"@context": "https://www.w3.org/2018/credentials/v1", "type": ["VerifiableCredential"], "credentialSubject": {"level": 1}}
    });
    let opts = JwsSignatureOptions::default().typ("sd-jwt".to_owned());
    if let Ok(jwt) = sign_raw(&issuer, "sign", claims.to_string().as_bytes(), &opts) {
      let now_h = clock.enter(h.skew);
      // the holder binds with the only hash it has (sha-256)
      let kb_claims = KeyBindingJwtClaims::new(&Sha256Hasher::new(), jwt.clone(), Vec::new(), "n-otherhash".to_owned(), "https://verifier.example".to_owned(), now_h);
      let kb_opts = JwsSignatureOptions::default().typ(KeyBindingJwtClaims::KB_JWT_HEADER_TYP.to_owned());
      if let (Ok(kb_payload), Some((_v, Ok(holder_doc)))) = (serde_json::to_string(&kb_claims), ledger.resolve(&h.did, 0)) {
        // (a holder whose #kb was rotated after its last publication cannot be checked against the ledger copy)
        if let Ok(kb) = sign_raw(h, &format!("{}#kb", h.did), kb_payload.as_bytes(), &kb_opts) {
          let published_has_key = {
            let pj = serde_json::to_value(&holder_doc).unwrap();
            let cj = serde_json::to_value(h.doc.core()).unwrap();
            doc_method(&pj, &format!("{}#kb", h.did), None).map(|m| m.1) == doc_method(&cj, &format!("{}#kb", h.did), None).map(|m| m.1)
          };
          if published_has_key {
            ctx::stat("fault.issuer.unsupported_sd_alg");
            ctx::set_clock(clock.now);
            let sd = SdJwt::new(jwt, Vec::new(), Some(kb));
            let validator = SdJwtCredentialValidator::with_signature_verifier(EdDSAJwsVerifier::default(), SdObjectDecoder::new_with_sha256());
            match ctx::catch(|| validator.validate_key_binding_jwt(&sd, &holder_doc, &KeyBindingJWTValidationOptions::default())) {
              Err(p) => ctx::violation("C16", "C16.error_never_crash", "validate_key_binding_jwt/panic/unsupported-sd-alg", format!("panicked: {p}")),
              Ok(Ok(_)) => ctx::violation(
                "C16",
                "C16.kb_accept_only_if_fully_bound",
                "accepted-despite/hash-algorithm-of-the-token-not-available",
                "a KB-JWT whose sd_hash is a sha-256 digest was accepted for an issuer token that declares another _sd_alg",
              ),
              Ok(Err(_)) => ctx::stat("probe.kb.rejected_unsupported_sd_alg"),
            }
            nontrivial = true;
          }
        }
      }
    }
  }
  if nontrivial {
    ctx::mark_nontrivial();
  }
}
