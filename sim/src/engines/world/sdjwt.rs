use crate::core::batch::Params;
pub const RULE: &str = "";
pub fn probes(_tier: &str) -> Vec<String> {
  Vec::new()
}
pub fn run(_params: &Params) {}
