//! `world` — multi-party credential ecosystem (C01, C02, C03, C06, C08, C12, C14, C16).
//!
//! Parties (issuers, holders, verifiers) own a DID document and a fault-wrapped `Storage`; a ledger stores exactly
//! the bytes `pack` produced and serves them late, stale, torn or flipped; a network delivers tokens with delay, loss,
//! duplication, bit flips and Byzantine rewrites; every party reads its own skewed clock through the `custom_time`
//! seam. Each armed property selects the flow mix of DESIGN Appendix D.5.

pub mod cred;
pub mod ledger;
pub mod notice;
pub mod revoc;
pub mod sdjwt;
pub mod statuslist;

use crate::core::batch::Engine;
use crate::core::batch::Params;
use crate::core::ctx;
use crate::core::exec::block_on;
use crate::engines::faulty::FaultCtl;
use crate::engines::faulty::FaultyJwk;
use crate::engines::faulty::FaultyKeyId;
use crate::engines::ks;
use crate::engines::ks::KeyGen;
use crate::engines::stor::to_scope;
use crate::engines::stor::AnyDoc;
use identity_core::convert::FromJson;
use identity_did::CoreDID;
use identity_document::document::CoreDocument;
use identity_iota_core::IotaDID;
use identity_iota_core::IotaDocument;
use identity_iota_core::NetworkName;
use identity_iota_core::StateMetadataDocument;
use identity_jose::jws::JwsAlgorithm;
use identity_storage::JwkDocumentExt;
use identity_storage::JwkMemStore;
use identity_storage::KeyIdMemstore;
use identity_storage::Storage;
use serde_json::Value;
use std::cell::RefCell;
use std::collections::BTreeMap;
use std::collections::BTreeSet;
use std::rc::Rc;

pub type Stor = Storage<FaultyJwk, FaultyKeyId>;

pub struct WorldEngine;

// ------------------------------------------------------------------------------------------------------------------
// Simulated time
// ------------------------------------------------------------------------------------------------------------------

pub struct Clock {
  pub now: i64,
}

impl Clock {
  /// Advances global simulated time by a tape-chosen delay (seconds).
  pub fn advance(&mut self, max: i64) -> i64 {
    let d = match ctx::weighted(&[4, 3, 2, 1]) {
      0 => 0,
      1 => 1 + ctx::choose(5) as i64,
      2 => 5 + ctx::choose((max.max(6) - 5) as usize) as i64,
      _ => max,
    };
    self.now += d;
    d
  }
  /// Makes library code see party `p`'s clock.
  pub fn enter(&self, skew: i64) -> i64 {
    let t = self.now + skew;
    ctx::set_clock(t);
    let _ = ctx::take_clock_reads();
    t
  }
}

// ------------------------------------------------------------------------------------------------------------------
// Parties
// ------------------------------------------------------------------------------------------------------------------

pub struct Party {
  pub name: String,
  pub iota: bool,
  pub did: String,
  pub doc: AnyDoc,
  pub storage: Stor,
  pub ctl: Rc<FaultCtl>,
  pub skew: i64,
  /// fragments of methods created through generate_method, with their scope
  pub methods: Vec<(String, crate::engines::docmodel::Scope)>,
}

pub fn new_storage() -> (Stor, Rc<FaultCtl>) {
  let ctl = Rc::new(FaultCtl::default());
  let storage: Stor = Storage::new(
    FaultyJwk {
      inner: JwkMemStore::new(),
      ctl: ctl.clone(),
    },
    FaultyKeyId {
      inner: KeyIdMemstore::new(),
      ctl: ctl.clone(),
    },
  );
  (storage, ctl)
}

/// A nonce that differs from `n` only by white space around it (another string, so another nonce). For a token
/// without nonce: a blank.
pub fn whitespace_twin(n: &Option<String>) -> Option<String> {
  let n = n.clone().unwrap_or_default();
  ctx::stat("probe.nonce_whitespace_twin");
  Some(match ctx::choose(4) {
    0 => format!("{n} "),
    1 => format!("{n}\n"),
    2 => format!("\t{n}"),
    _ => format!(" {n} "),
  })
}

pub fn hex_tag() -> String {
  // (never the all-zero tag: that is the placeholder DID, which a published document does not keep; a replay tape
  // being minimised draws zeros)
  let mut bytes = ctx::bytes(32);
  if bytes.iter().all(|b| *b == 0) {
    bytes[31] = 1;
  }
  bytes.iter().map(|b| format!("{b:02x}")).collect()
}

impl Party {
  /// Creates a party with an empty document. IOTA documents start under the placeholder DID of their network.
  pub fn new(name: &str, iota: bool, n: usize) -> Party {
    let (storage, ctl) = new_storage();
    let (doc, did) = if iota {
      let net = NetworkName::try_from(["smr", "rms", "iota"][ctx::choose(3)]).expect("network name");
      let d = IotaDocument::new(&net);
      let did = d.id().to_string();
      (AnyDoc::Iota(d), did)
    } else {
      let did = format!("did:sim:{name}{n}");
      (
        AnyDoc::Core(
          CoreDocument::builder(Default::default())
            .id(CoreDID::parse(&did).unwrap())
            .build()
            .expect("empty doc"),
        ),
        did,
      )
    };
    Party {
      name: name.to_owned(),
      iota,
      did,
      doc,
      storage,
      ctl,
      skew: 0,
      methods: Vec::new(),
    }
  }

  /// generate_method without faults (setup phase).
  pub fn gen_method(&mut self, fragment: &str, scope: crate::engines::docmodel::Scope) -> Result<String, String> {
    let st = &self.storage;
    let r = match &mut self.doc {
      AnyDoc::Core(d) => block_on(d.generate_method(
        st,
        JwkMemStore::ED25519_KEY_TYPE,
        JwsAlgorithm::EdDSA,
        Some(fragment),
        to_scope(scope),
      )),
      AnyDoc::Iota(d) => block_on(d.generate_method(
        st,
        JwkMemStore::ED25519_KEY_TYPE,
        JwsAlgorithm::EdDSA,
        Some(fragment),
        to_scope(scope),
      )),
    };
    match r {
      Ok(f) => {
        self.methods.push((f.clone(), scope));
        Ok(f)
      }
      Err(e) => Err(e.to_string()),
    }
  }

  pub fn core_json(&self) -> Value {
    serde_json::to_value(self.doc.core()).expect("doc to value")
  }
}

// ------------------------------------------------------------------------------------------------------------------
// Ledger / registry: stores exactly the bytes that were published
// ------------------------------------------------------------------------------------------------------------------

#[derive(Clone)]
pub struct Version {
  pub bytes: Vec<u8>,
  pub at: i64,
  /// ground truth: the core document JSON (under the real DID) this version denotes
  pub truth: Value,
}

#[derive(Default)]
pub struct Ledger {
  pub entries: BTreeMap<String, Vec<Version>>,
}

/// Harness-side model of the self-reference rewrite (DESIGN I14.1): exactly document id, controllers, method ids and
/// controllers (general-purpose and embedded), references, and service ids.
pub fn rewrite_self_refs(doc: &Value, from: &str, to: &str) -> Value {
  fn did_of(url: &str) -> &str {
    let end = url.find(['#', '?', '/']).unwrap_or(url.len());
    &url[..end]
  }
  let swap = |s: &str| -> String {
    if did_of(s) == from {
      format!("{to}{}", &s[from.len()..])
    } else {
      s.to_owned()
    }
  };
  let swap_val = |v: &Value| -> Value {
    match v {
      Value::String(s) => Value::String(swap(s)),
      other => other.clone(),
    }
  };
  let fix_method = |m: &Value| -> Value {
    let mut m = m.clone();
    if let Some(o) = m.as_object_mut() {
      for k in ["id", "controller"] {
        if let Some(v) = o.get(k).cloned() {
          o.insert(k.to_owned(), swap_val(&v));
        }
      }
    }
    m
  };
  let mut out = doc.clone();
  let Some(o) = out.as_object_mut() else { return out };
  if let Some(v) = o.get("id").cloned() {
    o.insert("id".into(), swap_val(&v));
  }
  if let Some(v) = o.get("controller").cloned() {
    let nv = match &v {
      Value::Array(a) => Value::Array(a.iter().map(swap_val).collect()),
      other => swap_val(other),
    };
    o.insert("controller".into(), nv);
  }
  if let Some(Value::Array(a)) = o.get("verificationMethod").cloned() {
    o.insert("verificationMethod".into(), Value::Array(a.iter().map(fix_method).collect()));
  }
  for r in crate::engines::docmodel::RELS {
    if let Some(Value::Array(a)) = o.get(r).cloned() {
      o.insert(
        r.into(),
        Value::Array(
          a.iter()
            .map(|e| match e {
              Value::String(_) => swap_val(e),
              obj => fix_method(obj),
            })
            .collect(),
        ),
      );
    }
  }
  if let Some(Value::Array(a)) = o.get("service").cloned() {
    o.insert(
      "service".into(),
      Value::Array(
        a.iter()
          .map(|s| {
            let mut s = s.clone();
            if let Some(so) = s.as_object_mut() {
              if let Some(v) = so.get("id").cloned() {
                so.insert("id".into(), swap_val(&v));
              }
            }
            s
          })
          .collect(),
      ),
    );
  }
  out
}

impl Ledger {
  /// Publishes the party's working document. The first publication of an IOTA document assigns its real DID (the
  /// alias id is only known after the output exists), so every later resolution unpacks for a DID different from the
  /// placeholder the document was built with. Returns Err when packing fails.
  pub fn publish(&mut self, p: &mut Party, now: i64) -> Result<usize, String> {
    match &p.doc {
      AnyDoc::Iota(d) => {
        let bytes = d.clone().pack().map_err(|e| e.to_string())?;
        let old = p.did.clone();
        if d.id().is_placeholder() {
          let net = d.id().network_str().to_owned();
          let tag = hex_tag();
          p.did = if net == "iota" {
            format!("did:iota:0x{tag}")
          } else {
            format!("did:iota:{net}:0x{tag}")
          };
        }
        let truth = rewrite_self_refs(&p.core_json(), &old, &p.did);
        let v = self.entries.entry(p.did.clone()).or_default();
        v.push(Version { bytes, at: now, truth });
        let n = v.len();
        // the publisher continues with the document as resolved under its real DID (as real clients do)
        if old != p.did {
          let did = IotaDID::parse(&p.did).map_err(|e| e.to_string())?;
          let resolved = StateMetadataDocument::unpack(&self.entries[&p.did][n - 1].bytes)
            .and_then(|s| s.into_iota_document(&did))
            .map_err(|e| e.to_string())?;
          p.doc = AnyDoc::Iota(resolved);
        }
        Ok(n)
      }
      AnyDoc::Core(d) => {
        let bytes = serde_json::to_vec(d).map_err(|e| e.to_string())?;
        let truth = p.core_json();
        let v = self.entries.entry(p.did.clone()).or_default();
        v.push(Version { bytes, at: now, truth });
        Ok(v.len())
      }
    }
  }

  pub fn latest(&self, did: &str) -> Option<usize> {
    self.entries.get(did).map(|v| v.len())
  }

  /// Resolution as a verifier does it: `lag` versions behind the latest (stale read), intact bytes.
  pub fn resolve(&self, did: &str, lag: usize) -> Option<(usize, Result<CoreDocument, String>)> {
    let versions = self.entries.get(did)?;
    let idx = versions.len().saturating_sub(1 + lag);
    let v = &versions[idx];
    let r = if did.starts_with("did:iota:") {
      IotaDID::parse(did)
        .map_err(|e| e.to_string())
        .and_then(|d| {
          StateMetadataDocument::unpack(&v.bytes)
            .and_then(|s| s.into_iota_document(&d))
            .map_err(|e| e.to_string())
        })
        .map(|d| d.core_document().clone())
    } else {
      CoreDocument::from_json_slice(&v.bytes).map_err(|e| e.to_string())
    };
    Some((idx + 1, r))
  }
}

/// Stale-read fault: how many versions behind the latest the ledger answers.
pub fn draw_lag(max_versions: usize, stale_rate: u32) -> usize {
  if max_versions > 1 && ctx::chance(stale_rate, 8) {
    ctx::stat("fault.ledger.stale_read");
    ctx::sched("stale", 1);
    1 + ctx::choose(max_versions - 1)
  } else {
    0
  }
}

// ------------------------------------------------------------------------------------------------------------------
// Network faults on byte/ASCII messages
// ------------------------------------------------------------------------------------------------------------------

#[derive(Clone, Debug, PartialEq)]
pub enum NetFault {
  None,
  BitFlip { pos: usize, bit: u8 },
  Truncate(usize),
  Drop,
  Duplicate,
}

/// Flips one bit of an ASCII token such that the result is a different character of the base64url/JSON alphabet
/// (a bit flip that yields a byte outside printable ASCII would be rejected by any parser and explores nothing).
pub fn flip_bit(token: &str) -> (String, usize, u8) {
  let bytes = token.as_bytes();
  let pos = ctx::choose(bytes.len());
  let bit = ctx::choose(7) as u8;
  let mut out = bytes.to_vec();
  out[pos] ^= 1 << bit;
  (String::from_utf8_lossy(&out).into_owned(), pos, bit)
}

pub fn install(prop: &str) -> (Rc<RefCell<KeyGen>>, u64) {
  let _ = prop;
  let keygen_seed = ((ctx::draw_u32() as u64) << 32) | ctx::draw_u32() as u64;
  let keygen = Rc::new(RefCell::new(KeyGen::new(keygen_seed)));
  ks::install_hooks(keygen.clone(), 0, 1);
  ks::set_hook_yields(false);
  (keygen, keygen_seed)
}

impl Engine for WorldEngine {
  fn name(&self) -> &'static str {
    "world"
  }
  fn crash_probes(&self, p: &str, tier: &str) -> Vec<String> {
    match p {
      "C16" => sdjwt::crash_probes(tier),
      "C01" => notice::crash_probes(tier),
      _ => Vec::new(),
    }
  }
  fn run_crash_probe(&self, p: &str, name: &str) -> String {
    match p {
      "C16" => sdjwt::run_crash_probe(name),
      "C01" => notice::run_crash_probe(name),
      _ => "no such probe".to_owned(),
    }
  }
  fn rule(&self, p: &str) -> String {
    match p {
      "C14" => ledger::RULE,
      "C06" => revoc::RULE,
      "C12" => statuslist::RULE,
      "C02" | "C03" => cred::RULE,
      "C16" => sdjwt::RULE,
      _ => notice::RULE,
    }
    .to_owned()
  }
  fn real_components(&self, p: &str) -> Vec<&'static str> {
    let mut v = vec![
      "identity_storage::JwkDocumentExt (generate_method, create_jws, create_credential_jwt, create_presentation_jwt) over JwkMemStore/KeyIdMemstore",
      "identity_iota_core::{IotaDocument::pack, StateMetadataDocument::{unpack, into_iota_document}}",
      "identity_core Timestamp::now_utc via the custom_time seam",
    ];
    v.extend(match p {
      "C14" => vec!["IotaDocument mutators, metadata, JSON (de)serialisation"],
      "C06" => vec![
        "RevocationBitmap, RevocationDocumentExt::{revoke_credentials, unrevoke_credentials, resolve_revocation_bitmap}",
        "JwtCredentialValidator + JwtCredentialValidatorUtils::check_status, EdDSAJwsVerifier",
      ],
      "C12" => vec![
        "StatusList2021, StatusList2021Credential(+Builder), StatusList2021Entry",
        "JwtCredentialValidatorUtils::check_status_with_status_list_2021",
      ],
      "C02" | "C03" => vec![
        "JwtCredentialValidator, JwtPresentationValidator, Decoder, EdDSAJwsVerifier, CoreDocument::verify_jws",
        "RevocationBitmap service handling, Credential/Presentation JWT (de)serialisation",
      ],
      "C16" => vec!["SdJwtCredentialValidator, KeyBindingJWTValidationOptions, SdObjectEncoder/Decoder (sd-jwt-payload), EdDSAJwsVerifier"],
      _ => vec![
        "CompactJwsEncoder, FlattenedJwsEncoder, GeneralJwsEncoder, Decoder (all three serialisations)",
        "EdDSAJwsVerifier, EcDSAJwsVerifier (ES256 / ES256K)",
      ],
    });
    v
  }
  fn stub_components(&self, p: &str) -> Vec<&'static str> {
    let mut v = vec!["network (message delivery with faults)", "ledger / registry byte store", "clock (simulated, per-party skew)"];
    if p == "C12" {
      v.push("status-list host (serves versions of the status list credential)");
    }
    if p == "C01" || p == "C08" {
      v.push("harness-side ES256/ES256K signer (p256/k256 crates) standing in for a KMS");
    }
    v
  }
  fn assumptions(&self, p: &str) -> Vec<String> {
    let mut v = vec![
      "the oracle recomputes expected decisions from ground truth recorded by the simulator (signing events, published versions, clock values) and never calls the library's decoder, validators or verifiers".to_owned(),
      "Ed25519 and RFC 6979 ECDSA signatures are deterministic, so a signature either is a logged one or (up to negligible probability) does not verify".to_owned(),
    ];
    match p {
      "C02" | "C03" | "C16" => v.push(
        "soundness and error identification are judged (the statement says 'accepted only if'), completeness is not: a rejected honest token is logged, not judged".to_owned(),
      ),
      "C01" => v.push("only inputs that an honest producer, a network fault or a listed adversary move generates are explored; arbitrary malformed JSON belongs to input fuzzing".to_owned()),
      "C14" => v.push("byte strings offered to unpack are faults applied to really packed documents, not arbitrary strings".to_owned()),
      _ => {}
    }
    v
  }
  fn required_probes(&self, p: &str, tier: &str) -> Vec<String> {
    match p {
      "C14" => ledger::probes(tier),
      "C06" => revoc::probes(tier),
      "C12" => statuslist::probes(tier),
      "C02" => cred::probes("C02", tier),
      "C03" => cred::probes("C03", tier),
      "C16" => sdjwt::probes(tier),
      "C01" => notice::probes("C01", tier),
      "C08" => notice::probes("C08", tier),
      _ => Vec::new(),
    }
  }
  fn run(&self, prop: &str, params: &Params) {
    let (_keygen, _seed) = install(prop);
    match prop {
      "C14" => ledger::run(params),
      "C06" => revoc::run(params),
      "C12" => statuslist::run(params),
      "C02" | "C03" => cred::run(prop, params),
      "C16" => sdjwt::run(params),
      "C01" | "C08" => notice::run(prop, params),
      _ => {}
    }
    ks::uninstall_hooks();
  }
}

#[allow(dead_code)]
fn _unused(_: BTreeSet<u8>) {}

// ------------------------------------------------------------------------------------------------------------------
// Harness-side token helpers (independent of the library's decoder)
// ------------------------------------------------------------------------------------------------------------------

/// Strict base64url (no padding, canonical trailing bits) decoder.
pub fn b64url_decode(s: &str) -> Option<Vec<u8>> {
  fn val(c: u8) -> Option<u32> {
    match c {
      b'A'..=b'Z' => Some((c - b'A') as u32),
      b'a'..=b'z' => Some((c - b'a') as u32 + 26),
      b'0'..=b'9' => Some((c - b'0') as u32 + 52),
      b'-' => Some(62),
      b'_' => Some(63),
      _ => None,
    }
  }
  let b = s.as_bytes();
  if b.len() % 4 == 1 {
    return None;
  }
  let mut out = Vec::with_capacity(b.len() * 3 / 4);
  let mut acc: u32 = 0;
  let mut bits = 0;
  for c in b {
    acc = (acc << 6) | val(*c)?;
    bits += 6;
    if bits >= 8 {
      bits -= 8;
      out.push((acc >> bits) as u8);
      acc &= (1 << bits) - 1;
    }
  }
  if acc != 0 {
    return None; // non-canonical trailing bits
  }
  Some(out)
}

pub struct ParsedCompact {
  pub header_b64: String,
  pub payload_b64: String,
  pub sig: Vec<u8>,
  pub header: Value,
  pub payload: Option<Value>,
}

/// Splits a compact JWS into its three segments and decodes header / payload as JSON. None = not decodable.
pub fn parse_compact(token: &str) -> Option<ParsedCompact> {
  let parts: Vec<&str> = token.split('.').collect();
  if parts.len() != 3 {
    return None;
  }
  let header_bytes = b64url_decode(parts[0])?;
  let header: Value = serde_json::from_slice(&header_bytes).ok()?;
  if !header.is_object() {
    return None;
  }
  let payload_bytes = b64url_decode(parts[1])?;
  let payload: Option<Value> = serde_json::from_slice(&payload_bytes).ok();
  let sig = b64url_decode(parts[2])?;
  Some(ParsedCompact {
    header_b64: parts[0].to_owned(),
    payload_b64: parts[1].to_owned(),
    sig,
    header,
    payload,
  })
}

/// Signature truth (DESIGN D.3): the token's `protected '.' payload` and signature are exactly those of a signing
/// event logged at some party's `JwkStorage::sign` seam for the key whose public `x` is `x`.
pub fn sig_truth(parties: &[&Party], signing_input: &[u8], sig: &[u8], x: &str) -> bool {
  parties.iter().any(|p| {
    p.ctl
      .sign_log
      .borrow()
      .iter()
      .any(|e| e.public_x == x && e.signature == sig && e.signing_input == signing_input)
  })
}

/// Looks a method up in a document's JSON the way the validators are specified to: by full id or fragment, within
/// an optional scope. Returns (method id, JWK JSON).
pub fn doc_method(doc: &Value, query: &str, scope: Option<crate::engines::docmodel::Scope>) -> Option<(String, Value)> {
  let m = crate::engines::docmodel::ModelDoc::from_json(doc);
  let c = m.resolve_method_candidates(query, scope);
  match c.first() {
    Some(Some(v)) => Some((
      crate::engines::docmodel::vid(v).to_owned(),
      v.get("publicKeyJwk").cloned().unwrap_or(Value::Null),
    )),
    _ => None,
  }
}

pub fn did_of_url(url: &str) -> &str {
  let end = url.find(['#', '?', '/']).unwrap_or(url.len());
  &url[..end]
}

/// Harness-side DID syntax check (no path, query or fragment), independent of the library's parser.
pub fn is_did(s: &str) -> bool {
  let mut parts = s.splitn(3, ':');
  let (Some("did"), Some(method), Some(id)) = (parts.next(), parts.next(), parts.next()) else { return false };
  !method.is_empty()
    && method.bytes().all(|b| b.is_ascii_lowercase() || b.is_ascii_digit())
    && !id.is_empty()
    && !id.ends_with(':')
    && id.bytes().all(|b| b.is_ascii_alphanumeric() || matches!(b, b'.' | b'-' | b'_' | b':' | b'%'))
}

/// Harness-side DID-URL syntax check: a DID, optionally followed by path, query and fragment without blanks or controls.
pub fn is_did_url(s: &str) -> bool {
  let end = s.find(['#', '?', '/']).unwrap_or(s.len());
  is_did(&s[..end]) && s[end..].bytes().all(|b| b > 0x20 && b < 0x7f)
}

pub fn variant_names(errs: &[identity_credential::validator::JwtValidationError]) -> Vec<&'static str> {
  errs.iter().map(|e| e.into()).collect()
}
