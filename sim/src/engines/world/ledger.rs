//! C14 — the ledger as a faulty byte store for packed IOTA documents.

use super::hex_tag;
use super::rewrite_self_refs;
use super::Clock;
use super::Ledger;
use super::Party;
use crate::core::batch::Params;
use crate::core::ctx;
use crate::engines::stor::AnyDoc;
use identity_core::common::Url;
use identity_core::convert::FromJson;
use identity_did::CoreDID;
use identity_did::DIDUrl;
use identity_document::service::Service;
use identity_iota_core::IotaDID;
use identity_iota_core::IotaDocument;
use identity_iota_core::StateMetadataDocument;
use identity_verification::MethodRelationship;
use identity_verification::MethodScope;
use identity_verification::VerificationMethod;
use serde_json::Value;

pub const RULE: &str = "One run = an IOTA DID document lifecycle: a document is built (under the placeholder DID or a real \
  DID) from a tape-drawn mix of storage-generated and foreign-DID methods in every scope, references, self/foreign \
  services, controllers, alsoKnownAs, custom properties and metadata, then published 1-4 times with mutations in between; \
  the ledger stores exactly the packed bytes and serves them intact, stale, torn at any prefix, with trailing garbage or \
  with one header bit flipped; every version is unpacked for its own DID and for a different DID. Non-trivial: at least one \
  ledger byte fault or stale read fired; distinct = distinct hashes of (fault kinds and positions).";

pub fn probes(_tier: &str) -> Vec<String> {
  [
    "fault.ledger.torn_read",
    "fault.ledger.trailing_garbage",
    "fault.ledger.header_flip",
    "fault.ledger.length_flip_enlarging",
    "fault.ledger.stale_read",
    "probe.unpack_for_other_did",
    "probe.unpack_for_same_did",
    "probe.first_publish_rebases_placeholder",
    "probe.same_tag_other_network",
    "probe.foreign_method",
    "probe.method_controller_differs_from_id_did",
    "probe.also_known_as_mentions_self",
    "probe.oversize_pack_refused",
    "probe.deeply_nested_property",
    "probe.near_limit_pack_ok",
  ]
  .iter()
  .map(|s| (*s).to_owned())
  .collect()
}

fn foreign_method(did: &str, frag: &str) -> VerificationMethod {
  let x = crate::engines::ks::b64(&ctx::bytes(32));
  let jwk: identity_jose::jwk::Jwk =
    serde_json::from_value(serde_json::json!({"kty":"OKP","crv":"Ed25519","alg":"EdDSA","x": x})).unwrap();
  VerificationMethod::new_from_jwk(CoreDID::parse(did).unwrap(), jwk, Some(frag)).unwrap()
}

/// A method whose id and controller belong to different DIDs (one of them may be the document's own DID).
fn mixed_method(id_did: &str, controller_did: &str, frag: &str) -> Option<VerificationMethod> {
  let x = crate::engines::ks::b64(&ctx::bytes(32));
  VerificationMethod::from_json_value(serde_json::json!({
    "id": format!("{id_did}#{frag}"),
    "controller": controller_did,
    "type": "JsonWebKey2020",
    "publicKeyJwk": {"kty":"OKP","crv":"Ed25519","alg":"EdDSA","x": x}
  }))
  .ok()
  .map(|mut m| {
    // DID-core allows further properties on a verification method; set through the public accessor
    if ctx::chance(1, 3) {
      let name = ["purpose", "zNote", "aLabel"][ctx::choose(3)];
      m.properties_mut().insert(name.to_owned(), Value::from("signing"));
      ctx::stat("probe.method_with_additional_property");
    }
    m
  })
}

const RELATIONSHIPS: [MethodRelationship; 5] = [
  MethodRelationship::Authentication,
  MethodRelationship::AssertionMethod,
  MethodRelationship::KeyAgreement,
  MethodRelationship::CapabilityDelegation,
  MethodRelationship::CapabilityInvocation,
];

fn draw_scope() -> MethodScope {
  match ctx::choose(6) {
    0 => MethodScope::VerificationMethod,
    n => MethodScope::VerificationRelationship(RELATIONSHIPS[n - 1]),
  }
}

/// Applies a tape-drawn batch of mutations to the party's IOTA document through the public API.
/// A DID with the same tag as `did` on another network: a foreign DID that must never be treated as a self-reference.
fn sibling_network_did(did: &str) -> Option<String> {
  let parts: Vec<&str> = did.split(':').collect();
  let (net, tag) = match parts.as_slice() {
    ["did", "iota", tag] => ("iota", *tag),
    ["did", "iota", net, tag] => (*net, *tag),
    _ => return None,
  };
  let others: Vec<&str> = ["smr", "rms", "tst", "iota"].into_iter().filter(|n| *n != net).collect();
  let o = others[ctx::choose(others.len())];
  Some(if o == "iota" { format!("did:iota:{tag}") } else { format!("did:iota:{o}:{tag}") })
}

fn mutate(p: &mut Party, foreign_dids: &[String], round: usize) {
  // besides the fixed foreign DIDs: the document's own tag on another network
  let mut with_sibling: Vec<String> = foreign_dids.to_vec();
  if let Some(sib) = sibling_network_did(&p.did) {
    if ctx::choose(2) == 0 {
      ctx::stat("probe.same_tag_other_network");
      with_sibling.insert(0, sib);
    }
  }
  // ... and the document's own DID with the hex digits of its tag in upper case: as a DID string that is another DID
  // (it can only appear where plain DIDs are stored, e.g. as id or controller of a method)
  if p.did.starts_with("did:iota:") && ctx::choose(3) == 0 {
    if let Some((head, tag)) = p.did.rsplit_once("0x") {
      let upper = format!("{head}0x{}", tag.to_ascii_uppercase());
      if upper != p.did {
        ctx::stat("probe.own_did_in_upper_case_hex");
        with_sibling.insert(0, upper);
      }
    }
  }
  let foreign_dids: &[String] = &with_sibling;
  let n = 1 + ctx::choose(6);
  for i in 0..n {
    let own = p.did.clone();
    match ctx::choose(10) {
      8 if ctx::choose(3) == 0 => {
        // the same fragment under the document's own DID and under a foreign IOTA DID (method or service)
        let foreign_iota: Vec<&String> = foreign_dids.iter().filter(|d| d.starts_with("did:iota:")).collect();
        if let (AnyDoc::Iota(doc), Some(f)) = (&mut p.doc, foreign_iota.first()) {
          if ctx::choose(2) == 0 {
            if let (Some(a), Some(b)) = (mixed_method(&own, &own, "dup"), mixed_method(f, f, "dup")) {
              let _ = doc.insert_method(a, MethodScope::VerificationMethod);
              let _ = doc.insert_method(b, MethodScope::VerificationMethod);
            }
          } else {
            for d in [own.as_str(), f.as_str()] {
              let sj = serde_json::json!({"id": format!("{d}#dupsvc"), "type": "SimService", "serviceEndpoint": format!("https://svc.example/{}", d.len())});
              if let Ok(svc) = Service::from_json_value(sj) {
                let _ = doc.insert_service(svc);
              }
            }
          }
          ctx::stat("probe.same_fragment_under_own_and_foreign_iota_did");
        }
      }
      9 => {
        // id and controller under different DIDs: foreign id controlled by this document, or own id controlled elsewhere
        let other = &foreign_dids[ctx::choose(foreign_dids.len())];
        let m = if ctx::choose(2) == 0 {
          mixed_method(other, &own, &format!("m{round}x{i}"))
        } else {
          mixed_method(&own, other, &format!("m{round}x{i}"))
        };
        if let (AnyDoc::Iota(doc), Some(m)) = (&mut p.doc, m) {
          if doc.insert_method(m, draw_scope()).is_ok() {
            ctx::stat("probe.method_controller_differs_from_id_did");
          }
        }
      }
      0 | 1 => {
        let scope = if ctx::choose(2) == 0 { None } else { Some(ctx::choose(5)) };
        let _ = p.gen_method(&format!("k{round}x{i}"), scope);
      }
      2 => {
        let d = &foreign_dids[ctx::choose(foreign_dids.len())];
        let m = foreign_method(d, &format!("f{round}x{i}"));
        if let AnyDoc::Iota(doc) = &mut p.doc {
          if doc.insert_method(m, draw_scope()).is_ok() {
            ctx::stat("probe.foreign_method");
          }
        }
      }
      3 => {
        // reference a general-purpose method from a relationship
        let frags: Vec<String> = p.methods.iter().filter(|m| m.1.is_none()).map(|m| m.0.clone()).collect();
        if !frags.is_empty() {
          let f = &frags[ctx::choose(frags.len())];
          if let AnyDoc::Iota(doc) = &mut p.doc {
            let _ = doc.attach_method_relationship(f.as_str(), RELATIONSHIPS[ctx::choose(5)]);
          }
        }
      }
      4 => {
        let (did, note) = if ctx::choose(3) == 0 {
          (foreign_dids[ctx::choose(foreign_dids.len())].clone(), "foreign")
        } else {
          (own.clone(), "self")
        };
        // endpoints may mention the document's own DID; they must never be rewritten
        let endpoint = match ctx::choose(3) {
          0 => format!("https://svc.example/{note}/{round}/{i}"),
          1 => format!("https://svc.example/about?did={own}"),
          _ => own.clone(),
        };
        let s = serde_json::json!({"id": format!("{did}#s{round}x{i}"), "type": "SimService", "serviceEndpoint": endpoint});
        if let (AnyDoc::Iota(doc), Ok(s)) = (&mut p.doc, Service::from_json_value(s)) {
          let _ = doc.insert_service(s);
        }
      }
      5 if ctx::choose(3) == 0 => {
        // controllers as they arrive in a document read from JSON: a single controller written as a one-element
        // array or as a bare string, possibly a foreign IOTA DID that spells out the default network name
        if let AnyDoc::Iota(doc) = &mut p.doc {
          let foreign_iota: Vec<&String> = foreign_dids.iter().filter(|d| d.starts_with("did:iota:")).collect();
          let mut c = if foreign_iota.is_empty() || ctx::choose(3) == 0 { own.clone() } else { foreign_iota[ctx::choose(foreign_iota.len())].clone() };
          if let Some(tag) = c.strip_prefix("did:iota:0x") {
            if ctx::choose(2) == 0 {
              c = format!("did:iota:iota:0x{tag}");
              ctx::stat("probe.controller_spells_default_network");
            }
          }
          let mut v = serde_json::to_value(&*doc).unwrap();
          let as_array = ctx::choose(2) == 0;
          v["doc"]["controller"] = if as_array { serde_json::json!([c]) } else { Value::from(c) };
          if let Ok(d2) = IotaDocument::from_json_value(v) {
            *doc = d2;
            ctx::stat(if as_array { "probe.controller_one_element_array_from_json" } else { "probe.controller_string_from_json" });
          }
        }
      }
      5 => {
        if let AnyDoc::Iota(doc) = &mut p.doc {
          let mut ctrls: Vec<IotaDID> = Vec::new();
          if ctx::choose(2) == 0 {
            ctrls.push(doc.id().clone());
          }
          for d in foreign_dids.iter().filter(|d| d.starts_with("did:iota:")) {
            if ctx::choose(2) == 0 {
              ctrls.push(IotaDID::parse(d).unwrap());
            }
          }
          doc.set_controller(ctrls);
        }
      }
      6 => {
        if let AnyDoc::Iota(doc) = &mut p.doc {
          let url = match ctx::choose(3) {
            0 => {
              ctx::stat("probe.also_known_as_mentions_self");
              own.clone()
            }
            1 => format!("https://alias.example/{round}/{i}"),
            _ => foreign_dids[ctx::choose(foreign_dids.len())].clone(),
          };
          if let Ok(u) = Url::parse(url) {
            doc.also_known_as_mut().append(u);
          }
        }
      }
      7 => {
        if let AnyDoc::Iota(doc) = &mut p.doc {
          doc.properties_mut_unchecked().insert(
            format!("custom{round}x{i}"),
            serde_json::json!({"about": own, "n": ctx::choose(1000)}),
          );
          // numbers with a fraction: whatever f64 the document holds must come back as that f64
          if ctx::choose(3) == 0 {
            let k = 1 + ctx::choose(2000) as u32;
            let f = match ctx::choose(3) {
              0 => k as f64 / 7.0,
              1 => k as f64 * 0.01,
              _ => (k as f32 * 0.03_f32) as f64,
            };
            doc.properties_mut_unchecked().insert(format!("rate{round}x{i}"), Value::from(f));
            ctx::stat("probe.float_property");
          }
          doc
            .metadata
            .properties_mut()
            .insert(format!("meta{i}"), Value::from(ctx::choose(1000) as u64));
          // values of every JSON shape, `null`, empty containers and empty strings included
          if ctx::choose(3) == 0 {
            let v = match ctx::choose(6) {
              0 => Value::Null,
              1 => serde_json::json!({}),
              2 => serde_json::json!([]),
              3 => Value::from(""),
              4 => Value::from(false),
              _ => serde_json::json!({"inner": null, "list": [null, 0, ""]}),
            };
            if ctx::choose(2) == 0 {
              doc.metadata.properties_mut().insert(format!("shape{i}"), v);
            } else {
              doc.properties_mut_unchecked().insert(format!("shape{round}x{i}"), v);
            }
            ctx::stat("probe.property_of_unusual_json_shape");
          }
          // the remaining metadata fields must survive packing as well
          match ctx::choose(6) {
            4 => doc.metadata.created = None,
            5 => doc.metadata.updated = None,
            0 => doc.metadata.deactivated = Some(ctx::choose(2) == 0),
            1 => doc.metadata.updated = identity_core::common::Timestamp::from_unix(ctx::clock() + ctx::choose(1000) as i64).ok(),
            2 => doc.metadata.created = identity_core::common::Timestamp::from_unix(ctx::clock() - ctx::choose(100_000) as i64).ok(),
            _ => {
              // ledger address fields are dropped by packing (the one documented exception)
              doc.metadata.governor_address = Some("rms1governor".to_owned());
              doc.metadata.state_controller_address = Some("rms1controller".to_owned());
            }
          }
        }
      }
      _ => {
        // remove something
        if let AnyDoc::Iota(doc) = &mut p.doc {
          let ids: Vec<DIDUrl> = doc.methods(None).iter().map(|m| m.id().clone()).collect();
          if !ids.is_empty() && ctx::choose(2) == 0 {
            let id = ids[ctx::choose(ids.len())].clone();
            let frag = id.fragment().unwrap_or("").to_owned();
            doc.remove_method(&id);
            p.methods.retain(|m| m.0 != frag);
          }
        }
      }
    }
  }
}

fn unpack_for(bytes: &[u8], did: &str) -> Result<IotaDocument, String> {
  let d = IotaDID::parse(did).map_err(|e| e.to_string())?;
  StateMetadataDocument::unpack(bytes)
    .and_then(|s| s.into_iota_document(&d))
    .map_err(|e| e.to_string())
}

/// The metadata as the harness sees it, field by field (not through the library's serialiser, which is part of what
/// is being checked): absent and present-but-false are different values. The ledger address fields are left out.
fn expected_meta(doc: &IotaDocument) -> Value {
  meta_fields(doc)
}

fn meta_fields(doc: &IotaDocument) -> Value {
  let m = &doc.metadata;
  let mut o = serde_json::Map::new();
  o.insert("created".into(), m.created.map(|t| Value::from(t.to_unix())).unwrap_or(Value::Null));
  o.insert("updated".into(), m.updated.map(|t| Value::from(t.to_unix())).unwrap_or(Value::Null));
  o.insert("deactivated".into(), m.deactivated.map(Value::from).unwrap_or(Value::Null));
  o.insert("properties".into(), Value::Object(m.properties().iter().map(|(k, v)| (k.clone(), v.clone())).collect()));
  Value::Object(o)
}

fn check_unpacked(ctxt: &str, got: &Result<IotaDocument, String>, want_core: &Value, want_meta: &Value) {
  match got {
    Err(e) => ctx::violation(
      "C14",
      "C14.round_trip",
      format!("{ctxt}/rejected"),
      format!("intact packed bytes were rejected: {e}"),
    ),
    Ok(doc) => {
      let core = serde_json::to_value(doc.core_document()).unwrap();
      if &core != want_core {
        ctx::violation(
          "C14",
          "C14.rewrites_exactly_self_references",
          format!("{ctxt}/document-differs"),
          format!("unpacked document {core} differs from expected {want_core}"),
        );
      }
      let meta = meta_fields(doc);
      if &meta != want_meta {
        ctx::violation(
          "C14",
          "C14.round_trip",
          format!("{ctxt}/metadata-differs"),
          format!("unpacked metadata {meta} differs from expected {want_meta}"),
        );
      }
    }
  }
}

pub fn run(_params: &Params) {
  let mut clock = Clock { now: ctx::BASE_TIME };
  let mut ledger = Ledger::default();
  let foreign_dids: Vec<String> = vec![
    format!("did:iota:0x{}", hex_tag()),
    format!("did:iota:smr:0x{}", hex_tag()),
    "did:sim:elsewhere".to_owned(),
  ];
  // Party with an IOTA document; one run in three starts from a real DID instead of the placeholder.
  let mut p = Party::new("I", true, 0);
  p.skew = ctx::range(-30, 30);
  clock.enter(p.skew);
  if ctx::choose(3) == 0 {
    let did = format!("did:iota:rms:0x{}", hex_tag());
    p.doc = AnyDoc::Iota(IotaDocument::new_with_id(IotaDID::parse(&did).unwrap()));
    p.did = did;
  }
  let publications = 1 + ctx::choose(4);
  let mut nontrivial = false;
  for round in 0..publications {
    clock.advance(600);
    clock.enter(p.skew);
    mutate(&mut p, &foreign_dids, round);
    let was_placeholder = matches!(&p.doc, AnyDoc::Iota(d) if d.id().is_placeholder());
    let pre_doc = match &p.doc {
      AnyDoc::Iota(d) => d.clone(),
      _ => unreachable!(),
    };
    let pre_did = p.did.clone();
    let pre_json = p.core_json();
    let n = match ledger.publish(&mut p, clock.now) {
      Ok(n) => n,
      Err(e) => {
        ctx::trace(format!("round {round}: publish failed: {e}"));
        continue;
      }
    };
    if was_placeholder {
      ctx::stat("probe.first_publish_rebases_placeholder");
    }
    let version = ledger.entries[&p.did][n - 1].clone();
    let want_meta = expected_meta(&pre_doc);
    ctx::trace(format!(
      "round {round}: published v{n} of {} ({} bytes, built as {pre_did})",
      p.did,
      version.bytes.len()
    ));

    // I14.1 — same DID as packed / different DID
    if pre_did == p.did {
      ctx::stat("probe.unpack_for_same_did");
      let unpacked = unpack_for(&version.bytes, &p.did);
      check_unpacked("same-did", &unpacked, &pre_json, &want_meta);
      // "an equal document": equal as values too, not only as JSON text (which key material a method carries, and
      // which of its members are mere properties, is part of the value)
      if let Ok(u) = &unpacked {
        if u.core_document() != pre_doc.core_document() {
          let detail = pre_doc
            .core_document()
            .methods(None)
            .iter()
            .zip(u.core_document().methods(None).iter())
            .find(|(a, b)| a != b)
            .map(|(a, b)| format!("method {}: data {:?} with properties {:?} came back as data {:?} with properties {:?}", a.id(), a.data(), a.properties().keys().collect::<Vec<_>>(), b.data(), b.properties().keys().collect::<Vec<_>>()))
            .unwrap_or_else(|| "documents differ outside their methods".to_owned());
          ctx::violation(
            "C14",
            "C14.round_trip",
            "same-did/equal-json-but-unequal-document",
            format!("the unpacked document serialises like the packed one but is not equal to it: {detail}"),
          );
        }
      }
    } else {
      ctx::stat("probe.unpack_for_other_did");
      check_unpacked("rebased-at-first-publish", &unpack_for(&version.bytes, &p.did), &version.truth, &want_meta);
    }
    // any other target DID / network
    let mut other = format!(
      "did:iota:{}0x{}",
      ["", "smr:", "rms:", "tst:"][ctx::choose(4)],
      hex_tag()
    );
    // (a DID the document does not mention; the mentioned ones are the subject of the step after this one)
    if foreign_dids.contains(&other) || other == p.did {
      other.pop();
      other.push('f');
    }
    ctx::stat("probe.unpack_for_other_did");
    let want_other = rewrite_self_refs(&pre_json, &pre_did, &other);
    check_unpacked("other-did", &unpack_for(&version.bytes, &other), &want_other, &want_meta);
    // ... and for a DID that the document already MENTIONS as a foreign DID under a fragment it also uses itself:
    // after the rewrite two entries would carry one identifier. That cannot be "the same document with its
    // self-references rewritten"; the only acceptable answer is an error (never a silently smaller document).
    if pre_did == p.did {
      let mentioned: Vec<&String> = foreign_dids.iter().filter(|d| d.starts_with("did:iota:") && pre_json.to_string().contains(d.as_str())).collect();
      if let Some(target) = mentioned.first() {
        let want = rewrite_self_refs(&pre_json, &pre_did, target);
        let mut ids: Vec<String> = Vec::new();
        for k in ["verificationMethod", "authentication", "assertionMethod", "keyAgreement", "capabilityDelegation", "capabilityInvocation"] {
          if let Some(a) = want.get(k).and_then(|a| a.as_array()) {
            for e in a.iter().filter(|e| e.is_object()) {
              ids.push(e.get("id").and_then(|i| i.as_str()).unwrap_or("").to_owned());
            }
          }
        }
        let svc: Vec<String> = want.get("service").and_then(|a| a.as_array()).map(|a| a.iter().map(|e| e.get("id").and_then(|i| i.as_str()).unwrap_or("").to_owned()).collect()).unwrap_or_default();
        let has_dup = |v: &Vec<String>| {
          let mut s = v.clone();
          s.sort();
          s.windows(2).any(|w| w[0] == w[1])
        };
        if has_dup(&ids) || has_dup(&svc) {
          ctx::stat("probe.unpack_for_mentioned_did_with_colliding_identifiers");
          match ctx::catch(|| unpack_for(&version.bytes, target)) {
            Ok(Err(_)) => {}
            Ok(Ok(d)) => ctx::violation(
              "C14",
              "C14.rewrites_exactly_self_references",
              "mentioned-did/colliding-identifiers-merged-silently",
              format!(
                "unpacking for {target}, which the document mentions under a fragment it uses itself, returned Ok with {} methods and {} services (the document has {} and {})",
                d.core_document().methods(None).len(),
                d.core_document().service().len(),
                ids.len(),
                svc.len()
              ),
            ),
            Err(pmsg) => ctx::violation("C14", "C14.rewrites_exactly_self_references", "mentioned-did/panic", format!("unpack panicked: {pmsg}")),
          }
        }
      }
    }

    // ---- ledger byte faults on this version ----
    let body_len = version.bytes.len() - 7;
    let faults = ctx::choose(4);
    for _ in 0..faults {
      nontrivial = true;
      match ctx::choose(4) {
        0 => {
          // torn read: any strict prefix
          let cut = ctx::choose(version.bytes.len());
          ctx::stat("fault.ledger.torn_read");
          ctx::sched("torn", cut as u64);
          let r = ctx::catch(|| unpack_for(&version.bytes[..cut], &p.did));
          match r {
            Ok(Err(_)) => {}
            Ok(Ok(_)) => ctx::violation(
              "C14",
              "C14.rejects_short_data",
              if cut < 7 { "torn/inside-header/accepted" } else { "torn/shorter-than-length-prefix/accepted" },
              format!("a read torn at {cut} of {} bytes was accepted", version.bytes.len()),
            ),
            Err(pmsg) => ctx::violation(
              "C14",
              "C14.rejects_short_data",
              "torn/panic",
              format!("unpack panicked on a read torn at {cut}: {pmsg}"),
            ),
          }
        }
        1 => {
          // (sometimes far more than a maximal document: whatever follows the prefixed length is not the document's)
          let extra = if ctx::chance(1, 6) {
            let mut e = ctx::bytes(64);
            e.resize(60_000 + ctx::choose(12_000), 0xA5);
            e
          } else {
            ctx::bytes(1 + ctx::choose(40))
          };
          ctx::stat("fault.ledger.trailing_garbage");
          ctx::sched("garbage", extra.len() as u64);
          let mut b = version.bytes.clone();
          b.extend_from_slice(&extra);
          let want = if pre_did == p.did { &pre_json } else { &version.truth };
          check_unpacked("trailing-garbage", &unpack_for(&b, &p.did), want, &want_meta);
        }
        2 => {
          // flip one bit in marker / version / encoding
          let pos = ctx::choose(5);
          let bit = ctx::choose(8);
          ctx::stat("fault.ledger.header_flip");
          ctx::sched("hflip", (pos * 8 + bit) as u64);
          let mut b = version.bytes.clone();
          b[pos] ^= 1 << bit;
          let r = ctx::catch(|| unpack_for(&b, &p.did));
          let field = ["marker", "marker", "marker", "version", "encoding"][pos];
          match r {
            Ok(Err(_)) => {}
            Ok(Ok(_)) => ctx::violation(
              "C14",
              "C14.rejects_bad_header",
              format!("header-flip/{field}/accepted"),
              format!("bytes with bit {bit} of header byte {pos} ({field}) flipped were accepted"),
            ),
            Err(pmsg) => ctx::violation(
              "C14",
              "C14.rejects_bad_header",
              format!("header-flip/{field}/panic"),
              format!("unpack panicked: {pmsg}"),
            ),
          }
        }
        _ => {
          // flip one bit of the 16-bit little-endian length prefix
          let bit = ctx::choose(16);
          let mut b = version.bytes.clone();
          b[5 + bit / 8] ^= 1 << (bit % 8);
          let new_len = u16::from_le_bytes([b[5], b[6]]) as usize;
          ctx::sched("lflip", bit as u64);
          let r = ctx::catch(|| unpack_for(&b, &p.did));
          if new_len > body_len {
            ctx::stat("fault.ledger.length_flip_enlarging");
            match r {
              Ok(Err(_)) => {}
              Ok(Ok(_)) => ctx::violation(
                "C14",
                "C14.rejects_short_data",
                "length-prefix-exceeds-data/accepted",
                format!("length prefix {new_len} exceeds the {body_len} data bytes but the bytes were accepted"),
              ),
              Err(pmsg) => ctx::violation(
                "C14",
                "C14.rejects_short_data",
                "length-prefix-exceeds-data/panic",
                format!("unpack panicked: {pmsg}"),
              ),
            }
          } else {
            // shrinking the prefix is outside the property; a crash here is an observation only
            ctx::stat("fault.ledger.length_flip_shrinking");
            if r.is_err() {
              ctx::stat("observation.panic_on_shrunk_length");
            }
          }
        }
      }
    }
    // ---- stale read: an older version must still denote what was published then ----
    let versions = ledger.entries[&p.did].len();
    let lag = super::draw_lag(versions, 3);
    if lag > 0 {
      nontrivial = true;
      if let Some((v, Ok(core))) = ledger.resolve(&p.did, lag) {
        let truth = &ledger.entries[&p.did][v - 1].truth;
        let got = serde_json::to_value(&core).unwrap();
        if &got != truth {
          ctx::violation(
            "C14",
            "C14.round_trip",
            "stale-version-differs",
            format!("version {v} resolves to {got}, published was {truth}"),
          );
        }
      }
    }
  }

  // ---- I14.4: documents too large for the 16-bit length fail to pack; just below the limit they pack ----
  if ctx::choose(24) == 0 {
    if let AnyDoc::Iota(doc) = &p.doc {
      let mut big = doc.clone();
      let base = 0usize;
      let over = ctx::choose(2) == 0;
      let mut i = 0;
      // size of what pack serialises: the ledger address fields are dropped before encoding
      let size_of = |d: &IotaDocument| {
        let mut d = d.clone();
        d.metadata.governor_address = None;
        d.metadata.state_controller_address = None;
        serde_json::to_vec(&StateMetadataDocument::from(d)).map(|v| v.len()).unwrap_or(0)
      };
      let mk = |i: usize, pad: usize, did: &str| {
        Service::from_json_value(serde_json::json!({"id": format!("{did}#big{i}"), "type":"Pad",
          "serviceEndpoint": format!("https://pad.example/{}", "x".repeat(pad))}))
        .unwrap()
      };
      // exact sizes around the 16-bit boundary: 65535-k packs, 65536+k does not
      let target: usize = if over {
        65_536 + [0usize, 0, 1, 2][ctx::choose(4)] + if ctx::choose(4) == 0 { ctx::choose(2000) } else { 0 }
      } else {
        65_535 - ctx::choose(3)
      };
      // grow with services; the size added by each is measured, not assumed
      loop {
        let cur = size_of(&big);
        if cur >= target || i > 200 {
          break;
        }
        let mut probe = big.clone();
        if probe.insert_service(mk(i, 0, &p.did)).is_err() {
          break;
        }
        let overhead = size_of(&probe) - cur;
        let room = target - cur;
        if room < overhead {
          break;
        }
        let pad = (room - overhead).min(4000);
        if big.insert_service(mk(i, pad, &p.did)).is_err() {
          break;
        }
        i += 1;
      }
      let size = size_of(&big);
      let r = ctx::catch(|| big.clone().pack());
      ctx::trace(format!("oversize probe: base {base} grown to {size} bytes, over={over}"));
      match r {
        Ok(Ok(bytes)) => {
          if size > 65_535 {
            ctx::violation(
              "C14",
              "C14.oversize_fails_to_pack",
              "oversize/packed",
              format!("a {size}-byte document packed into {} bytes", bytes.len()),
            );
          } else {
            ctx::stat("probe.near_limit_pack_ok");
            let want = serde_json::to_value(big.core_document()).unwrap();
            check_unpacked("near-limit", &unpack_for(&bytes, &p.did), &want, &expected_meta(&big));
          }
        }
        Ok(Err(_)) => {
          if size <= 65_535 {
            ctx::violation(
              "C14",
              "C14.round_trip",
              "near-limit/refused",
              format!("a {size}-byte document (within the 16-bit length) failed to pack"),
            );
          } else {
            ctx::stat("probe.oversize_pack_refused");
          }
        }
        Err(pmsg) => ctx::violation("C14", "C14.oversize_fails_to_pack", "oversize/panic", format!("pack panicked: {pmsg}")),
      }
    }
  }
  // ---- the same bytes as the state metadata of an Alias Output (the route a resolver takes): intact bytes unpack to the
  // published document, damaged or foreign bytes are refused whatever `allow_empty` says, and only EMPTY metadata is an
  // empty (deactivated) document, and only when `allow_empty` is set
  if ctx::choose(6) == 0 {
    use identity_iota_core::block::address::Address;
    use identity_iota_core::block::address::Ed25519Address;
    use identity_iota_core::block::output::unlock_condition::GovernorAddressUnlockCondition;
    use identity_iota_core::block::output::unlock_condition::StateControllerAddressUnlockCondition;
    use identity_iota_core::block::output::AliasId;
    use identity_iota_core::block::output::AliasOutputBuilder;
    if let (Some(v), Ok(did)) = (ledger.entries.get(&p.did).and_then(|vs| vs.last()).cloned(), IotaDID::parse(&p.did)) {
      let addr = Address::Ed25519(Ed25519Address::new([7u8; 32]));
      let output_with = |metadata: Vec<u8>| {
        AliasOutputBuilder::new_with_amount(1_000_000, AliasId::null())
          .with_state_metadata(metadata)
          .add_unlock_condition(StateControllerAddressUnlockCondition::new(addr))
          .add_unlock_condition(GovernorAddressUnlockCondition::new(addr))
          .finish()
      };
      let allow_empty = ctx::choose(2) == 0;
      let kind = ctx::choose(4);
      let metadata: Vec<u8> = match kind {
        0 => v.bytes.clone(),
        1 => {
          // one bit of marker / version / encoding flipped
          let mut b = v.bytes.clone();
          let pos = ctx::choose(5);
          b[pos] ^= 1 << ctx::choose(8);
          b
        }
        2 => ctx::bytes(1 + ctx::choose(40)),
        _ => Vec::new(),
      };
      if let Ok(output) = output_with(metadata) {
        ctx::stat("probe.unpack_from_output");
        ctx::sched("output-route", kind as u64 * 2 + allow_empty as u64);
        let r = ctx::catch(|| IotaDocument::unpack_from_output(&did, &output, allow_empty).map_err(|e| e.to_string()));
        match (kind, r) {
          (_, Err(pmsg)) => ctx::violation("C14", "C14.rejects_bad_header", "output-route/panic", format!("unpack_from_output panicked: {pmsg}")),
          (0, Ok(Ok(doc))) => {
            let core = serde_json::to_value(doc.core_document()).unwrap();
            if core != v.truth {
              ctx::violation(
                "C14",
                "C14.round_trip",
                "output-route/document-differs",
                format!("unpack_from_output returned {core}, published was {}", v.truth),
              );
            }
          }
          (0, Ok(Err(e))) => ctx::violation("C14", "C14.round_trip", "output-route/intact-rejected", format!("intact state metadata rejected: {e}")),
          (1 | 2, Ok(Ok(_))) => ctx::violation(
            "C14",
            "C14.rejects_bad_header",
            "output-route/damaged-metadata-accepted",
            format!("unpack_from_output(allow_empty = {allow_empty}) accepted state metadata that is {}", if kind == 1 { "damaged in its header" } else { "no packed document at all" }),
          ),
          (1 | 2, Ok(Err(_))) => {}
          (_, Ok(Ok(doc))) => {
            // empty metadata
            if !allow_empty || doc.metadata.deactivated != Some(true) || !doc.methods(None).is_empty() {
              ctx::violation(
                "C14",
                "C14.rejects_bad_header",
                "output-route/empty-metadata",
                format!("empty state metadata with allow_empty = {allow_empty} gave a document (deactivated: {:?})", doc.metadata.deactivated),
              );
            }
          }
          (_, Ok(Err(_))) => {
            if allow_empty {
              ctx::violation("C14", "C14.rejects_bad_header", "output-route/empty-metadata-refused", "empty state metadata refused although allow_empty is set".to_owned());
            }
          }
        }
      }
    }
  }

  // ---- an IotaDocument obtained by CONVERSION from a CoreDocument whose controller is not an IOTA DID (the conversion
  // checks nothing). Such a document is no IOTA document; refusing to pack it is fine, but what packs has to unpack.
  if ctx::choose(16) == 0 {
    if let AnyDoc::Iota(doc) = &p.doc {
      let mut cj = serde_json::to_value(doc.core_document()).unwrap();
      cj["controller"] = ["did:sim:elsewhere", "did:web:example.com", "did:key:z6MkSim"][ctx::choose(3)].into();
      if let Ok(core) = identity_document::document::CoreDocument::from_json_value(cj) {
        let mut converted = IotaDocument::from(core);
        converted.metadata = doc.metadata.clone();
        ctx::stat("probe.converted_document_with_foreign_controller");
        ctx::sched("conv", 1);
        match ctx::catch(|| converted.clone().pack()) {
          Ok(Ok(bytes)) => match ctx::catch(|| unpack_for(&bytes, &p.did)) {
            Ok(Ok(u)) => {
              let want = serde_json::to_value(converted.core_document()).unwrap();
              check_unpacked("converted-document", &Ok(u), &want, &expected_meta(&converted));
            }
            Ok(Err(e)) => ctx::violation(
              "C14",
              "C14.round_trip",
              "converted-document/packs-but-does-not-unpack",
              format!("an IotaDocument converted from a CoreDocument with a non-IOTA controller packed into {} bytes, which unpack rejects: {e}", bytes.len()),
            ),
            Err(pmsg) => ctx::violation("C14", "C14.round_trip", "converted-document/unpack-panic", format!("unpack panicked: {pmsg}")),
          },
          Ok(Err(_)) => ctx::stat("probe.converted_document_refused_by_pack"),
          Err(pmsg) => ctx::violation("C14", "C14.round_trip", "converted-document/pack-panic", format!("pack panicked: {pmsg}")),
        }
      }
    }
  }

  // ---- a body written by another implementation whose controller is a DID that ends in a percent-encoded octet (legal
  // DID syntax): whatever unpack makes of it, it returns
  if ctx::choose(12) == 0 {
    if let Some(v) = ledger.entries.get(&p.did).and_then(|vs| vs.last()) {
      if let Some(mut body) = v.bytes.get(7..).and_then(|b| serde_json::from_slice::<Value>(b).ok()) {
        let odd = ["did:example:abc%20", "did:iota:%30", "did:web:example.com%3A", "did:example:caf%C3%A9"][ctx::choose(4)];
        if body.get("doc").is_some() {
          body["doc"]["controller"] = odd.into();
          let text = body.to_string().into_bytes();
          if text.len() <= u16::MAX as usize {
            let mut bytes = b"DID".to_vec();
            bytes.push(1);
            bytes.push(0);
            bytes.extend_from_slice(&(text.len() as u16).to_le_bytes());
            bytes.extend_from_slice(&text);
            ctx::stat("probe.body_with_did_ending_in_percent_octet");
            ctx::sched("pctdid", odd.len() as u64);
            if let Err(pmsg) = ctx::catch(|| unpack_for(&bytes, &p.did)) {
              ctx::violation(
                "C14",
                "C14.rejects_bad_header",
                "foreign-body/did-ending-in-percent-octet/panic",
                format!("unpack panicked on a well-formed body whose controller is {odd}: {pmsg}"),
              );
            }
          }
        }
      }
    }
  }

  // ---- I14.1 for machine-generated trees: a custom property (of the document or of its metadata) whose value is nested
  // 40..200 levels deep. The writer has no depth limit; whatever packs has to unpack as the same document.
  if ctx::choose(20) == 0 {
    if let AnyDoc::Iota(doc) = &p.doc {
      let mut deep = doc.clone();
      let depth = [40usize, 90, 120, 124, 126, 128, 130, 200][ctx::choose(8)];
      let in_meta = ctx::choose(2) == 0;
      let mut v = Value::from("leaf");
      for level in 0..depth {
        v = if level % 2 == 0 { serde_json::json!({ "n": v }) } else { Value::Array(vec![v]) };
      }
      if in_meta {
        deep.metadata.properties_mut().insert("tree".to_owned(), v);
      } else {
        deep.properties_mut_unchecked().insert("tree".to_owned(), v);
      }
      ctx::stat("probe.deeply_nested_property");
      let where_ = if in_meta { "metadata" } else { "document" };
      ctx::trace(format!("nesting probe: a {where_} property nested {depth} levels deep"));
      match ctx::catch(|| deep.clone().pack()) {
        Ok(Ok(bytes)) => match ctx::catch(|| unpack_for(&bytes, &p.did)) {
          Ok(Ok(u)) => {
            let want = serde_json::to_value(deep.core_document()).unwrap();
            check_unpacked("nested-property", &Ok(u), &want, &expected_meta(&deep));
          }
          Ok(Err(e)) => ctx::violation(
            "C14",
            "C14.round_trip",
            "nested-property/packs-but-does-not-unpack",
            format!("a document whose {where_} property is nested {depth} levels deep packed into {} bytes, which unpack rejects: {e}", bytes.len()),
          ),
          Err(pmsg) => ctx::violation("C14", "C14.round_trip", "nested-property/unpack-panic", format!("unpack panicked: {pmsg}")),
        },
        Ok(Err(e)) => ctx::violation(
          "C14",
          "C14.round_trip",
          "nested-property/refused",
          format!("a document whose {where_} property is nested {depth} levels deep (far below the 16-bit length) failed to pack: {e}"),
        ),
        Err(pmsg) => ctx::violation("C14", "C14.round_trip", "nested-property/pack-panic", format!("pack panicked: {pmsg}")),
      }
    }
  }

  // ---- a document written elsewhere whose OWN id (and every self-reference) spells out the default network name
  // (`did:iota:iota:0x..`): its self-references are self-references; unpacked for another DID they are all rewritten.
  if ctx::choose(8) == 0 {
    let own = format!("did:iota:iota:0x{}", hex_tag());
    let method = |frag: &str| {
      let mut m = serde_json::to_value(foreign_method(&own, frag)).unwrap();
      m["controller"] = own.clone().into();
      m
    };
    let embedded = method("e1");
    let mut doc_json = serde_json::json!({
      "id": own,
      "verificationMethod": [method("k1")],
      "authentication": [format!("{own}#k1"), embedded],
      "service": [{"id": format!("{own}#s1"), "type": "SimService", "serviceEndpoint": format!("https://svc.example/about?did={own}")}],
    });
    if ctx::choose(2) == 0 {
      doc_json["controller"] = own.clone().into();
    }
    let body = serde_json::json!({"doc": doc_json, "meta": {}});
    ctx::stat("probe.own_id_spells_default_network");
    if let Ok(doc) = IotaDocument::from_json_value(body) {
      let as_read = serde_json::to_value(doc.core_document()).unwrap();
      // (only a document that kept the spelling is of interest here; a reader that normalises is judged by the
      // ordinary flow above)
      if as_read.get("id").and_then(|i| i.as_str()) == Some(own.as_str()) {
        ctx::stat("probe.own_id_spells_default_network.kept_as_written");
        if let Ok(Ok(bytes)) = ctx::catch(|| doc.clone().pack()) {
          let other = format!("did:iota:{}0x{}", ["smr:", "rms:", "tst:"][ctx::choose(3)], hex_tag());
          let want_other = rewrite_self_refs(&as_read, &own, &other);
          check_unpacked("own-id-spells-default-network/other-did", &unpack_for(&bytes, &other), &want_other, &expected_meta(&doc));
        }
      }
    }
  }
  if nontrivial {
    ctx::mark_nontrivial();
  }
}
