//! C06 — an issuer's revocation bitmap as a history inside a published, resolved and validated document.

use super::draw_lag;
use super::Clock;
use super::Ledger;
use super::Party;
use crate::core::batch::Params;
use crate::core::ctx;
use crate::core::exec::block_on;
use crate::engines::stor::AnyDoc;
use identity_core::common::Object;
use identity_core::convert::FromJson;
use identity_credential::credential::Credential;
use identity_credential::credential::Jwt;
use identity_credential::revocation::RevocationBitmap;
use identity_credential::revocation::RevocationDocumentExt;
use identity_credential::validator::FailFast;
use identity_credential::validator::JwtCredentialValidationOptions;
use identity_credential::validator::JwtCredentialValidator;
use identity_credential::validator::JwtValidationError;
use identity_did::DIDUrl;
use identity_document::document::CoreDocument;
use identity_eddsa_verifier::EdDSAJwsVerifier;
use identity_storage::JwkDocumentExt;
use identity_storage::JwsSignatureOptions;
use std::collections::BTreeMap;
use std::collections::BTreeSet;

pub const RULE: &str = "One run = an issuer (IOTA or did:sim document) with 1-2 RevocationBitmap2022 services and a history of \
  2-10 revoke/unrevoke batches (sequential, clustered, uniformly random and multi-container u32 indices; batch sizes 1..max) \
  interleaved with publications, simulated time and credential issuance; verifiers resolve the issuer document from the \
  ledger (possibly a stale version) and validate credentials whose status entry points at a service. The model is a \
  BTreeSet<u32> per service per published version. Non-trivial: the history contains at least one unrevoke or a stale \
  resolution; distinct = distinct hashes of (batch kinds/sizes, stale reads).";

pub fn probes(_tier: &str) -> Vec<String> {
  [
    "probe.revoke_batch",
    "probe.unrevoke_batch",
    "probe.multi_container",
    "probe.dense_run",
    "probe.validation_revoked",
    "probe.validation_not_revoked",
    "probe.legacy_endpoint_decoded",
    "probe.resolved_bitmap_checked",
    "fault.ledger.stale_read",
    "probe.endpoint_prefix.eJy",
    "probe.endpoint_prefix.other",
    "probe.foreign_service_same_fragment",
    "probe.alias_service_same_did_and_fragment",
    "fault.storage.endpoint_bit_rot",
    "probe.damaged_endpoint_rejected",
    "probe.validated_after_expiry",
    "probe.service_type_spelled_as_array",
    "probe.jpt_twin_revoked",
    "probe.jpt_twin_not_revoked",
    "probe.sd_jwt_twin_revoked",
    "probe.sd_jwt_twin_not_revoked",
  ]
  .iter()
  .map(|s| (*s).to_owned())
  .collect()
}

fn base64_std(data: &[u8]) -> String {
  const T: &[u8; 64] = b"ABCDEFGHIJKLMNOPQRSTUVWXYZabcdefghijklmnopqrstuvwxyz0123456789+/";
  let mut out = String::new();
  for chunk in data.chunks(3) {
    let b = [chunk[0], *chunk.get(1).unwrap_or(&0), *chunk.get(2).unwrap_or(&0)];
    let n = ((b[0] as u32) << 16) | ((b[1] as u32) << 8) | b[2] as u32;
    out.push(T[(n >> 18) as usize & 63] as char);
    out.push(T[(n >> 12) as usize & 63] as char);
    out.push(if chunk.len() > 1 { T[(n >> 6) as usize & 63] as char } else { '=' });
    out.push(if chunk.len() > 2 { T[n as usize & 63] as char } else { '=' });
  }
  out
}

fn gen_batch(max: usize, next_seq: &mut u32, mentioned: &BTreeSet<u32>) -> (Vec<u32>, &'static str) {
  let size = match ctx::weighted(&[4, 4, 2, 1]) {
    0 => 1 + ctx::choose(4),
    1 => 5 + ctx::choose(60),
    2 => 50 + ctx::choose(200.min(max)),
    _ => max / 2 + ctx::choose(max / 2 + 1),
  }
  .min(max)
  .max(1);
  if ctx::chance(1, 1500) {
    // several hundred thousand scattered indices: the serialised bitmap exceeds a megabyte
    ctx::stat("probe.huge_sparse_batch");
    let mut x: u64 = ((ctx::draw_u32() as u64) << 32) | ctx::draw_u32() as u64 | 1;
    let n = 280_000 + ctx::choose(60_000);
    let v: Vec<u32> = (0..n)
      .map(|_| {
        x ^= x << 13;
        x ^= x >> 7;
        x ^= x << 17;
        (x >> 16) as u32
      })
      .collect();
    return (v, "huge-sparse");
  }
  if ctx::chance(1, 400) {
    // one index in EVERY block of 65 536 (all 65 536 containers of the 32-bit index space present), sometimes all but
    // the last block, which the next batch may then fill
    ctx::stat("probe.index_in_every_block");
    let off = ctx::choose(16) as u32;
    let blocks: u32 = if ctx::choose(3) == 0 { 65_535 } else { 65_536 };
    return ((0..blocks).map(|k| (k << 16) | off).collect(), "every-block");
  }
  if ctx::choose(14) == 0 {
    // a long consecutive run: a dense set whose serialised form is large but compresses extremely well
    ctx::stat("probe.dense_run");
    let base = match ctx::choose(3) {
      0 => 0u32,
      1 => 1000,
      _ => ctx::draw_u32() & 0x00FF_FFFF,
    };
    let len = 4096 + ctx::choose(8000) as u32;
    return ((base..base + len).collect(), "dense-run");
  }
  match ctx::choose(6) {
    5 => {
      // ascending with duplicates and gaps (e.g. [5,5,7]): looks like a consecutive block by first/last/len
      let mut v: Vec<u32> = Vec::new();
      let mut cur = if mentioned.is_empty() || ctx::choose(2) == 0 {
        ctx::choose(200) as u32
      } else {
        *mentioned.iter().next().unwrap()
      };
      for _ in 0..size.min(12) {
        v.push(cur);
        cur = cur.saturating_add([0u32, 0, 1, 2, 2][ctx::choose(5)]);
      }
      (v, "sorted-with-duplicates-and-gaps")
    }
    0 => {
      // sequential allocation, as issuers do
      let v: Vec<u32> = (0..size as u32).map(|i| *next_seq + i).collect();
      *next_seq += size as u32;
      (v, "sequential")
    }
    1 => {
      let base = ctx::draw_u32() & 0xFFFF_0000;
      ((0..size).map(|_| base + ctx::choose(4096) as u32).collect(), "clustered")
    }
    2 => ((0..size).map(|_| ctx::draw_u32()).collect(), "random"),
    3 => {
      ctx::stat("probe.multi_container");
      ((0..size).map(|i| (i as u32).wrapping_mul(65_537).wrapping_add(ctx::choose(7) as u32)).collect(), "multi-container")
    }
    _ => {
      // re-touch indices mentioned before (so unrevoke hits members)
      let m: Vec<u32> = mentioned.iter().copied().collect();
      if m.is_empty() {
        (vec![ctx::choose(100) as u32], "small")
      } else {
        ((0..size.min(m.len() * 2)).map(|_| m[ctx::choose(m.len())]).collect(), "mentioned")
      }
    }
  }
}

fn query_set(model: &BTreeSet<u32>, mentioned: &BTreeSet<u32>, touched: &[u32]) -> Vec<u32> {
  let mut q: BTreeSet<u32> = BTreeSet::new();
  for i in touched.iter().take(64) {
    for d in [0i64, 1, -1, 65_536, -65_536] {
      let v = *i as i64 + d;
      if (0..=u32::MAX as i64).contains(&v) {
        q.insert(v as u32);
      }
    }
  }
  let m: Vec<u32> = mentioned.iter().copied().collect();
  for _ in 0..16.min(m.len()) {
    q.insert(m[ctx::choose(m.len())]);
  }
  let members: Vec<u32> = model.iter().copied().collect();
  for _ in 0..8.min(members.len()) {
    q.insert(members[ctx::choose(members.len())]);
  }
  for _ in 0..4 {
    q.insert(ctx::draw_u32());
  }
  q.into_iter().collect()
}

fn check_bitmap(ctxt: &str, got: Result<RevocationBitmap, String>, model: &BTreeSet<u32>, queries: &[u32], endpoint: &str) {
  let prefix: String = endpoint.chars().take(3).collect();
  match got {
    Err(e) => ctx::violation(
      "C06",
      "C06.endpoint_round_trip",
      format!("{ctxt}/own-endpoint-does-not-decode/prefix={}", if prefix == "eJy" { "eJy" } else { "other" }),
      format!(
        "bitmap with {} indices encoded as {}… cannot be decoded again: {e}",
        model.len(),
        endpoint.chars().take(24).collect::<String>()
      ),
    ),
    Ok(bm) => {
      if bm.len() != model.len() as u64 {
        ctx::violation(
          "C06",
          "C06.exact_membership",
          format!("{ctxt}/cardinality"),
          format!("decoded bitmap has {} members, model has {}", bm.len(), model.len()),
        );
      }
      for q in queries {
        if bm.is_revoked(*q) != model.contains(q) {
          ctx::violation(
            "C06",
            "C06.exact_membership",
            format!("{ctxt}/membership"),
            format!("index {q}: bitmap says {}, model says {}", bm.is_revoked(*q), model.contains(q)),
          );
          break;
        }
      }
    }
  }
}

fn endpoint_of(doc: &CoreDocument, service_id: &str) -> String {
  let v = serde_json::to_value(doc).unwrap();
  v.get("service")
    .and_then(|s| s.as_array())
    .and_then(|a| a.iter().find(|s| s.get("id").and_then(|i| i.as_str()) == Some(service_id)))
    .and_then(|s| s.get("serviceEndpoint"))
    .and_then(|e| e.as_str())
    .map(|e| e.trim_start_matches("data:application/octet-stream;base64,").to_owned())
    .unwrap_or_default()
}

pub fn run(params: &Params) {
  let max_batch = params.get("max_batch").copied().unwrap_or(1000) as usize;
  let mut clock = Clock { now: ctx::BASE_TIME };
  let mut ledger = Ledger::default();
  let iota = ctx::choose(2) == 0;
  let mut issuer = Party::new("I", iota, 0);
  issuer.skew = ctx::range(-20, 20);
  clock.enter(issuer.skew);
  if issuer.gen_method("sign", Some(1)).is_err() {
    return;
  }
  // first publication assigns the real DID; services are added afterwards under it
  if ledger.publish(&mut issuer, clock.now).is_err() {
    return;
  }
  let n_services = 1 + ctx::choose(2);
  let mut services: Vec<String> = Vec::new();
  for i in 0..n_services {
    let sid = format!("{}#rev{i}", issuer.did);
    let svc = RevocationBitmap::new().to_service(DIDUrl::parse(&sid).unwrap());
    let Ok(svc) = svc else { return };
    let r = match &mut issuer.doc {
      AnyDoc::Core(d) => d.insert_service(svc).map_err(|e| e.to_string()),
      AnyDoc::Iota(d) => d.insert_service(svc).map_err(|e| e.to_string()),
    };
    if r.is_err() {
      return;
    }
    services.push(sid);
  }
  // a document assembled elsewhere may spell the type of a service as an array (one or several types)
  if ctx::choose(4) == 0 {
    let mut v = serde_json::to_value(issuer.doc.core()).unwrap();
    if let Some(a) = v.get_mut("service").and_then(|s| s.as_array_mut()) {
      let k = ctx::choose(a.len().max(1));
      if let Some(svc) = a.get_mut(k) {
        svc["type"] = if ctx::choose(2) == 0 {
          serde_json::json!(["RevocationBitmap2022"])
        } else {
          serde_json::json!(["RevocationBitmap2022", "SimArchive"])
        };
      }
    }
    if let Ok(core) = CoreDocument::from_json_value(v) {
      issuer.doc = match &issuer.doc {
        AnyDoc::Core(_) => AnyDoc::Core(core),
        AnyDoc::Iota(_) => AnyDoc::Iota(identity_iota_core::IotaDocument::from(core)),
      };
      ctx::stat("probe.service_type_spelled_as_array");
    }
  }
  // optionally the document also lists a bitmap service of ANOTHER DID with the same fragment as the issuer's first
  // service and different content: lookups must go by the full id named in the status entry / the call
  let foreign_same_fragment = ctx::choose(3) == 0;
  if foreign_same_fragment {
    let mut fb = RevocationBitmap::new();
    for i in 0..64 {
      fb.revoke(i);
    }
    if let Ok(svc) = fb.to_service(DIDUrl::parse("did:sim:otherissuer#rev0").unwrap()) {
      let ok = match &mut issuer.doc {
        AnyDoc::Core(d) => d.insert_service(svc).is_ok(),
        AnyDoc::Iota(d) => d.insert_service(svc).is_ok(),
      };
      if ok {
        ctx::stat("probe.foreign_service_same_fragment");
      }
    }
  }
  let mut model: BTreeMap<String, BTreeSet<u32>> = services.iter().map(|s| (s.clone(), BTreeSet::new())).collect();
  let mut mentioned: BTreeSet<u32> = BTreeSet::new();
  // model per published version
  let mut version_models: Vec<BTreeMap<String, BTreeSet<u32>>> = Vec::new();
  let _ = ledger.publish(&mut issuer, clock.now);
  version_models.push(BTreeMap::new()); // v1 (no services)
  version_models.push(model.clone()); // v2
  let mut next_seq = 0u32;
  let mut credentials: Vec<(String, String, u32, Option<i64>)> = Vec::new(); // (jwt, service id, index, expiry)
  // one run in fifty is a long history
  let long = ctx::chance(1, 50);
  let steps = if long {
    ctx::stat("probe.long_history");
    20 + ctx::choose(40)
  } else {
    2 + ctx::choose(9)
  };
  // (long histories use moderate batches: their point is the number of updates, not their size)
  let max_batch = if long { max_batch.min(2000) } else { max_batch };
  let mut nontrivial = false;
  for step in 0..steps {
    clock.advance(3600);
    clock.enter(issuer.skew);
    match ctx::weighted(&[5, 3, 2, 3]) {
      0 | 1 => {
        let unrevoke = ctx::choose(3) == 0;
        let sid = services[ctx::choose(services.len())].clone();
        let (batch, kind) = gen_batch(max_batch, &mut next_seq, &mentioned);
        // by full id or by fragment
        let query: String = if foreign_same_fragment || ctx::choose(2) == 0 {
          sid.clone()
        } else {
          sid.rsplit('#').next().unwrap().to_owned()
        };
        let r = match (&mut issuer.doc, unrevoke) {
          (AnyDoc::Core(d), true) => d.unrevoke_credentials(query.as_str(), &batch).map_err(|e| err_chain(&e)),
          (AnyDoc::Core(d), false) => d.revoke_credentials(query.as_str(), &batch).map_err(|e| err_chain(&e)),
          (AnyDoc::Iota(d), true) => d.unrevoke_credentials(query.as_str(), &batch).map_err(|e| err_chain(&e)),
          (AnyDoc::Iota(d), false) => d.revoke_credentials(query.as_str(), &batch).map_err(|e| err_chain(&e)),
        };
        after_update(&issuer_core(&issuer.doc), &sid, unrevoke, &batch, kind, r, &mut model, &mut mentioned, step);
        if unrevoke {
          nontrivial = true;
        }
      }
      2 => {
        if ledger.publish(&mut issuer, clock.now).is_ok() {
          version_models.push(model.clone());
          ctx::trace(format!("step {step}: published v{}", version_models.len()));
        }
      }
      _ => {
        // issue a credential whose status entry points at a service; sometimes at the service of the document whose id
        // carries ANOTHER DID (it is a service of this issuer's document all the same; indices 0..63 are set in it)
        let foreign_sid = "did:sim:otherissuer#rev0".to_owned();
        let point_at_foreign = foreign_same_fragment && ctx::choose(5) == 0;
        let sid = if point_at_foreign { foreign_sid.clone() } else { services[ctx::choose(services.len())].clone() };
        let index = if !mentioned.is_empty() && ctx::choose(2) == 0 {
          let m: Vec<u32> = mentioned.iter().copied().collect();
          m[ctx::choose(m.len())]
        } else if ctx::choose(12) == 0 {
          // the ends of the index range
          ctx::stat("probe.credential_index_at_range_end");
          [u32::MAX, u32::MAX - 1, 0, 65_535, 65_536][ctx::choose(5)]
        } else {
          let v = next_seq;
          next_seq += 1;
          v
        };
        mentioned.insert(index);
        let index = if point_at_foreign { [0u32, 5, 63, 64, 70, 1000][ctx::choose(6)] } else { index };
        let with_query = ctx::choose(2) == 0 && !point_at_foreign;
        let status_id = if with_query {
          format!("{}?index={index}#{}", issuer.did, sid.rsplit('#').next().unwrap())
        } else {
          sid.clone()
        };
        if point_at_foreign {
          ctx::stat("probe.status_points_at_service_with_foreign_did");
        }
        let mut cred = serde_json::json!({
          "@context": "https://www.w3.org/2018/credentials/v1",
          "id": format!("https://cred.example/{step}"),
          "type": ["VerifiableCredential"],
          "issuer": issuer.did,
          "issuanceDate": crate::core::time::rfc3339(clock.now + issuer.skew - 60),
          "credentialSubject": {"id": "did:sim:subject", "n": step},
          "credentialStatus": {"id": status_id, "type": "RevocationBitmap2022", "revocationBitmapIndex": index.to_string()}
        });
        // one credential in four is short-lived: by the time it is validated it may ALSO have expired, and a
        // revoked credential must still be reported revoked then
        let expires: Option<i64> = if ctx::choose(4) == 0 { Some(clock.now + issuer.skew + 40 + ctx::choose(4000) as i64) } else { None };
        if let Some(e) = expires {
          cred["expirationDate"] = crate::core::time::rfc3339(e).into();
        }
        let Ok(cred) = Credential::<Object>::from_json_value(cred) else { continue };
        let jwt = match &issuer.doc {
          AnyDoc::Core(d) => block_on(d.create_credential_jwt(&cred, &issuer.storage, "sign", &JwsSignatureOptions::default(), None)),
          AnyDoc::Iota(d) => block_on(d.create_credential_jwt(&cred, &issuer.storage, "sign", &JwsSignatureOptions::default(), None)),
        };
        if let Ok(jwt) = jwt {
          credentials.push((jwt.as_str().to_owned(), sid, index, expires));
        }
      }
    }

    // ---- a verifier resolves the issuer (possibly stale) and validates some credential ----
    if !credentials.is_empty() && ctx::choose(2) == 0 {
      let versions = ledger.latest(&issuer.did).unwrap_or(0);
      let lag = draw_lag(versions, 3);
      if lag > 0 {
        nontrivial = true;
      }
      let Some((v, Ok(resolved))) = ledger.resolve(&issuer.did, lag) else { continue };
      let vm = &version_models[v - 1];
      let verifier_skew = ctx::range(0, 30);
      clock.enter(verifier_skew);
      let (jwt, sid, index, expires) = credentials[ctx::choose(credentials.len())].clone();
      let expired = expires.map(|e| e < clock.now + verifier_skew).unwrap_or(false);
      if expired {
        ctx::stat("probe.validated_after_expiry");
      }
      // I6.2: the bitmap as resolved by the verifier equals the model of that version
      if let Some(m) = vm.get(&sid) {
        ctx::stat("probe.resolved_bitmap_checked");
        let got = resolved
          .resolve_revocation_bitmap(sid.as_str().into())
          .map_err(|e| e.to_string());
        let ep = endpoint_of(&resolved, &sid);
        check_bitmap("resolved-version", got, m, &query_set(m, &mentioned, &[index]), &ep);
      }
      let validator = JwtCredentialValidator::with_signature_verifier(EdDSAJwsVerifier::default());
      let res = ctx::catch(|| {
        validator.validate::<_, Object>(
          &Jwt::new(jwt.clone()),
          &resolved,
          &JwtCredentialValidationOptions::default(),
          FailFast::AllErrors,
        )
      });
      let member = if sid == "did:sim:otherissuer#rev0" {
        // prefilled with 0..=63 at set-up and never updated; present in every version that has services
        if v >= 2 { Some(index < 64) } else { None }
      } else {
        vm.get(&sid).map(|m| m.contains(&index))
      };
      match (res, member) {
        (Err(p), _) => ctx::violation("C06", "C06.validation_reports_exactly_members", "validation/panic", format!("validate panicked: {p}")),
        (Ok(Ok(_)), Some(true)) => ctx::violation(
          "C06",
          "C06.validation_reports_exactly_members",
          "validation/revoked-but-accepted",
          format!("index {index} is revoked in version {v} of {sid} but the credential was accepted"),
        ),
        (Ok(Ok(_)), Some(false)) if expired => ctx::violation(
          "C06",
          "C06.validation_reports_exactly_members",
          "validation/expired-but-accepted",
          format!("credential for index {index} had expired at validation time but was accepted"),
        ),
        (Ok(Ok(_)), _) => ctx::stat("probe.validation_not_revoked"),
        (Ok(Err(e)), Some(false)) => {
          let revoked = e.validation_errors.iter().any(|x| matches!(x, JwtValidationError::Revoked));
          let names: Vec<&'static str> = e.validation_errors.iter().map(|x| x.into()).collect();
          if expired && !revoked && names == vec!["ExpirationDate"] {
            ctx::stat("probe.validation_expired_not_revoked");
          } else if revoked {
            ctx::violation(
              "C06",
              "C06.validation_reports_exactly_members",
              "validation/not-member-but-revoked",
              format!("index {index} is not revoked in version {v} of {sid} but validation reports Revoked"),
            );
          } else {
            // the service exists in this version and the index is clear: a healthy credential must pass
            ctx::violation(
              "C06",
              "C06.validation_reports_exactly_members",
              format!("validation/not-member-but-rejected/{}", names.join("+")),
              format!("index {index} is not revoked in version {v} but validation failed with {names:?}"),
            );
          }
        }
        (Ok(Err(e)), Some(true)) => {
          if e.validation_errors.iter().any(|x| matches!(x, JwtValidationError::Revoked)) {
            ctx::stat("probe.validation_revoked");
          } else {
            let names: Vec<&'static str> = e.validation_errors.iter().map(|x| x.into()).collect();
            ctx::violation(
              "C06",
              "C06.validation_reports_exactly_members",
              format!("validation/member-but-other-error/{}", names.join("+")),
              format!("index {index} is revoked in version {v} but validation reports {names:?} instead of Revoked"),
            );
          }
        }
        (Ok(Err(_)), None) => ctx::stat("probe.validation_service_absent_in_version"),
      }
    }
  }

  // ---- legacy double-encoded endpoint: Base64(Base64Url(zlib(bitmap))) as pre-#1291 publishers wrote it ----
  if ctx::choose(3) == 0 {
    let sid = services[0].clone();
    let core = issuer_core(&issuer.doc);
    let ep = endpoint_of(&core, &sid);
    if !ep.is_empty() {
      // The old writer produced a `;base64` data URL of the inner text: standard base64 WITH padding (two out of three
      // inner lengths need some). One time in four the padding is stripped, as lenient producers did.
      let padded = base64_std(ep.as_bytes());
      let legacy = if ctx::choose(4) == 0 { padded.trim_end_matches('=').to_owned() } else { padded };
      if legacy.ends_with('=') {
        ctx::stat("probe.legacy_endpoint_with_padding");
      }
      let mut v = serde_json::to_value(&core).unwrap();
      if let Some(a) = v.get_mut("service").and_then(|s| s.as_array_mut()) {
        for s in a.iter_mut() {
          if s.get("id").and_then(|i| i.as_str()) == Some(sid.as_str()) {
            s["serviceEndpoint"] = format!("data:application/octet-stream;base64,{legacy}").into();
          }
        }
      }
      if let Ok(old_doc) = CoreDocument::from_json_value(v) {
        let got = ctx::catch(|| old_doc.resolve_revocation_bitmap(sid.as_str().into()).map_err(|e| e.to_string()))
          .unwrap_or_else(|p| Err(format!("panic: {p}")));
        let m = &model[&sid];
        if got.is_ok() {
          ctx::stat("probe.legacy_endpoint_decoded");
        }
        match got {
          Err(e) => ctx::violation(
            "C06",
            "C06.legacy_endpoint_decodes",
            "legacy/does-not-decode",
            format!("legacy double-encoded endpoint of a {}-index bitmap does not decode: {e}", m.len()),
          ),
          Ok(bm) => {
            let qs = query_set(m, &mentioned, &[]);
            if bm.len() != m.len() as u64 || qs.iter().any(|q| bm.is_revoked(*q) != m.contains(q)) {
              ctx::violation("C06", "C06.legacy_endpoint_decodes", "legacy/wrong-members", "legacy endpoint decodes to a different set");
            }
          }
        }
      }
    }
  }
  // ---- endpoints as OTHER encoders of the same format write them ----
  if ctx::choose(4) == 0 {
    foreign_encoder_scenario(&issuer_core(&issuer.doc), &services[0], &model[&services[0]]);
  }
  // ---- two services whose ids share DID and fragment and differ in the path (a document assembled elsewhere) ----
  if ctx::choose(4) == 0 {
    alias_scenario(&issuer_core(&issuer.doc), &services[0], &mut next_seq);
  }
  // ---- the same status entry on a credential issued as a JPT (BBS+) and validated by the JPT validator ----
  if ctx::choose(8) == 0 {
    jpt_twin_scenario(&issuer_core(&issuer.doc), &services[0], &model[&services[0]]);
  }
  // ---- ... and on a credential issued as an SD-JWT and validated by the SD-JWT validator (the third twin) ----
  if ctx::choose(8) == 0 {
    sd_jwt_twin_scenario(&issuer_core(&issuer.doc), &services[0], &model[&services[0]]);
  }
  if nontrivial {
    ctx::mark_nontrivial();
  }
}

/// The same status entry on a credential issued as an SD-JWT (one claim concealed and disclosed) with a fresh Ed25519
/// method of the issuer, validated with `SdJwtCredentialValidator::validate_credential` under the default options
/// (`StatusCheck::Strict`): reported revoked exactly when the index is a member.
fn sd_jwt_twin_scenario(core: &CoreDocument, sid: &str, model: &BTreeSet<u32>) {
  use identity_credential::sd_jwt_payload::SdJwt;
  use identity_credential::sd_jwt_payload::SdObjectDecoder;
  use identity_credential::sd_jwt_payload::SdObjectEncoder;
  use identity_credential::validator::SdJwtCredentialValidator;
  use identity_did::DID;
  use identity_storage::JwkMemStore;
  use identity_storage::KeyIdMemstore;
  use identity_storage::Storage;
  use identity_verification::jws::JwsAlgorithm;
  use identity_verification::MethodScope;

  let mut doc = core.clone();
  let storage: Storage<JwkMemStore, KeyIdMemstore> = Storage::new(JwkMemStore::new(), KeyIdMemstore::new());
  let Ok(fragment) = block_on(doc.generate_method(&storage, JwkMemStore::ED25519_KEY_TYPE, JwsAlgorithm::EdDSA, None, MethodScope::assertion_method())) else {
    return;
  };
  let member = !model.is_empty() && ctx::choose(2) == 0;
  let index: u32 = if member {
    *model.iter().nth(ctx::choose(model.len().min(64))).expect("non-empty")
  } else {
    let mut i = 12_000_000 + ctx::choose(1000) as u32;
    while model.contains(&i) {
      i += 1;
    }
    i
  };
  let cred = serde_json::json!({
    "@context": "https://www.w3.org/2018/credentials/v1",
    "id": "https://cred.example/sd-jwt-twin",
    "type": ["VerifiableCredential"],
    "issuer": doc.id().as_str(),
    "issuanceDate": "2020-01-01T00:00:00Z",
    "credentialSubject": {"id": "did:sim:subject", "name": "Alice", "level": 3},
    "credentialStatus": {"id": sid, "type": "RevocationBitmap2022", "revocationBitmapIndex": index.to_string()}
  });
  let Ok(cred) = Credential::<Object>::from_json_value(cred) else { return };
  let Ok(payload) = cred.serialize_jwt(None) else { return };
  let Ok(mut enc) = SdObjectEncoder::new(&payload) else { return };
  let mut disclosures: Vec<String> = Vec::new();
  if let Ok(d) = enc.conceal("/vc/credentialSubject/name", Some(crate::core::b64::encode(ctx::bytes(16)))) {
    disclosures.push(d.to_string());
  }
  let Ok(encoded) = enc.try_to_string() else { return };
  let opts = JwsSignatureOptions::default().typ("sd-jwt".to_owned());
  let Ok(jws) = block_on(doc.create_jws(&storage, &fragment, encoded.as_bytes(), &opts)) else {
    ctx::stat("observation.sd_jwt_twin_not_signed");
    return;
  };
  let sd = SdJwt::new(jws.as_str().to_owned(), disclosures, None);
  ctx::stat("probe.sd_jwt_twin_validated");
  ctx::sched("sdtwin", member as u64);
  let validator = SdJwtCredentialValidator::with_signature_verifier(EdDSAJwsVerifier::default(), SdObjectDecoder::new_with_sha256());
  let res = ctx::catch(|| {
    validator
      .validate_credential::<_, Object>(&sd, &doc, &JwtCredentialValidationOptions::default(), FailFast::FirstError)
      .map(|_| ())
      .map_err(|e| {
        e.validation_errors
          .iter()
          .map(|x| {
            let name: &'static str = x.into();
            name
          })
          .collect::<Vec<&'static str>>()
      })
  });
  match (res, member) {
    (Err(p), _) => ctx::violation("C06", "C06.validation_reports_exactly_members", "sd-jwt-validation/panic", format!("SD-JWT validation panicked: {p}")),
    (Ok(Ok(())), true) => ctx::violation(
      "C06",
      "C06.validation_reports_exactly_members",
      "sd-jwt-validation/revoked-but-accepted",
      format!("index {index} is revoked in {sid}; the credential issued as an SD-JWT was accepted under StatusCheck::Strict"),
    ),
    (Ok(Ok(())), false) => ctx::stat("probe.sd_jwt_twin_not_revoked"),
    (Ok(Err(names)), true) => {
      if names.contains(&"Revoked") {
        ctx::stat("probe.sd_jwt_twin_revoked");
      } else {
        ctx::violation(
          "C06",
          "C06.validation_reports_exactly_members",
          format!("sd-jwt-validation/member-but-other-error/{}", names.join("+")),
          format!("index {index} is revoked but SD-JWT validation reports {names:?} instead of Revoked"),
        );
      }
    }
    (Ok(Err(names)), false) => ctx::violation(
      "C06",
      "C06.validation_reports_exactly_members",
      format!("sd-jwt-validation/not-member-but-rejected/{}", names.join("+")),
      format!("index {index} is not revoked but SD-JWT validation failed with {names:?}"),
    ),
  }
}

/// A credential whose `RevocationBitmap2022` (or `RevocationTimeframe2024`) status entry points at the issuer's service,
/// issued as a JSON Proof Token with a BBS+ method of the issuer and validated with `JptCredentialValidator::validate`
/// under `StatusCheck::Strict` (the documented default of its options): reported revoked exactly when the index is a
/// member.
fn jpt_twin_scenario(core: &CoreDocument, sid: &str, model: &BTreeSet<u32>) {
  use identity_credential::credential::CredentialBuilder;
  use identity_credential::credential::JwpCredentialOptions;
  use identity_credential::credential::RevocationBitmapStatus;
  use identity_credential::credential::Status;
  use identity_credential::credential::Subject;
  use identity_credential::revocation::RevocationTimeframeStatus;
  use identity_credential::validator::JptCredentialValidationOptions;
  use identity_credential::validator::JptCredentialValidator;
  use identity_credential::validator::StatusCheck;
  use identity_did::DID;
  use identity_storage::JwkMemStore;
  use identity_storage::JwpDocumentExt;
  use identity_storage::KeyIdMemstore;
  use identity_storage::Storage;
  use identity_verification::MethodScope;
  use jsonprooftoken::jpa::algs::ProofAlgorithm;

  let Ok(service_url) = DIDUrl::parse(sid) else { return };
  let mut doc = core.clone();
  let storage: Storage<JwkMemStore, KeyIdMemstore> = Storage::new(JwkMemStore::new(), KeyIdMemstore::new());
  let Ok(fragment) = block_on(doc.generate_method_jwp(
    &storage,
    JwkMemStore::BLS12381G2_KEY_TYPE,
    ProofAlgorithm::BLS12381_SHA256,
    None,
    MethodScope::VerificationMethod,
  )) else {
    ctx::stat("observation.jpt_twin_no_bbs_method");
    return;
  };
  // a member (if there is one) or a non-member
  let member = !model.is_empty() && ctx::choose(2) == 0;
  let index: u32 = if member {
    *model.iter().nth(ctx::choose(model.len().min(64))).expect("non-empty")
  } else {
    let mut i = 11_000_000 + ctx::choose(1000) as u32;
    while model.contains(&i) {
      i += 1;
    }
    i
  };
  let timeframe = ctx::choose(2) == 0;
  let status: Status = if timeframe {
    match RevocationTimeframeStatus::new(
      Some(identity_core::common::Timestamp::from_unix(1_700_000_000).expect("in range")),
      identity_core::common::Duration::minutes(10),
      service_url.clone().into(),
      index,
    ) {
      Ok(s) => s.into(),
      Err(_) => return,
    }
  } else {
    RevocationBitmapStatus::new(service_url.clone(), index).into()
  };
  let Ok(subject) = Subject::from_json_value(serde_json::json!({"id": "did:sim:holder", "name": "Alice"})) else { return };
  let Ok(issuer_url) = identity_core::common::Url::parse(doc.id().as_str()) else { return };
  let Ok(credential): Result<Credential, _> = CredentialBuilder::default()
    .id(identity_core::common::Url::parse("https://sim.example/credentials/jpt").expect("static url"))
    .issuer(issuer_url)
    .type_("SimCredential")
    .subject(subject)
    .status(status)
    .issuance_date(identity_core::common::Timestamp::from_unix(1_600_000_000).expect("in range"))
    .build()
  else {
    return;
  };
  let Ok(jpt) = block_on(doc.create_credential_jpt(&credential, &storage, &fragment, &JwpCredentialOptions::default(), None)) else {
    ctx::stat("observation.jpt_twin_not_issued");
    return;
  };
  ctx::stat("probe.jpt_twin_validated");
  ctx::sched("jpt", member as u64 * 2 + timeframe as u64);
  let res = ctx::catch(|| {
    JptCredentialValidator::validate::<_, Object>(
      &jpt,
      &doc,
      &JptCredentialValidationOptions::default().status_check(StatusCheck::Strict),
      FailFast::FirstError,
    )
    .map(|_| ())
    .map_err(|e| {
      e.validation_errors
        .iter()
        .map(|x| {
          let name: &'static str = x.into();
          name
        })
        .collect::<Vec<&'static str>>()
    })
  });
  let kind = if timeframe { "RevocationTimeframe2024" } else { "RevocationBitmap2022" };
  match (res, member) {
    (Err(p), _) => ctx::violation("C06", "C06.validation_reports_exactly_members", "jpt-validation/panic", format!("JPT validation panicked: {p}")),
    (Ok(Ok(())), true) => ctx::violation(
      "C06",
      "C06.validation_reports_exactly_members",
      "jpt-validation/revoked-but-accepted",
      format!("index {index} is revoked in {sid}; the JPT credential with a {kind} status entry was accepted under StatusCheck::Strict"),
    ),
    (Ok(Ok(())), false) => ctx::stat("probe.jpt_twin_not_revoked"),
    (Ok(Err(names)), true) => {
      if names.contains(&"Revoked") {
        ctx::stat("probe.jpt_twin_revoked");
      } else {
        ctx::violation(
          "C06",
          "C06.validation_reports_exactly_members",
          format!("jpt-validation/member-but-other-error/{}", names.join("+")),
          format!("index {index} is revoked but JPT validation ({kind}) reports {names:?} instead of Revoked"),
        );
      }
    }
    (Ok(Err(names)), false) => ctx::violation(
      "C06",
      "C06.validation_reports_exactly_members",
      format!("jpt-validation/not-member-but-rejected/{}", names.join("+")),
      format!("index {index} is not revoked but JPT validation ({kind}) failed with {names:?}"),
    ),
  }
}

fn zlib(data: &[u8], level: u32) -> Vec<u8> {
  use std::io::Write;
  let mut e = flate2::write::ZlibEncoder::new(Vec::new(), flate2::Compression::new(level));
  e.write_all(data).expect("in-memory write");
  e.finish().expect("in-memory finish")
}

fn unzlib(data: &[u8]) -> Option<Vec<u8>> {
  use std::io::Read;
  let mut out = Vec::new();
  flate2::read::ZlibDecoder::new(data).read_to_end(&mut out).ok()?;
  Some(out)
}

/// The issuer's service with its endpoint replaced by `endpoint_b64url` (the text after the data-URL prefix).
fn with_endpoint(core: &CoreDocument, sid: &str, endpoint_b64url: &str) -> Option<CoreDocument> {
  let mut v = serde_json::to_value(core).ok()?;
  let a = v.get_mut("service")?.as_array_mut()?;
  let svc = a.iter_mut().find(|s| s.get("id").and_then(|i| i.as_str()) == Some(sid))?;
  svc["serviceEndpoint"] = format!("data:application/octet-stream;base64,{endpoint_b64url}").into();
  CoreDocument::from_json_value(v).ok()
}

/// The same bitmap as another implementation of RevocationBitmap2022 may have written it: compressed at another zlib
/// level, or serialised (standard Roaring format) with a RUN container. It must decode to the same set, and an update
/// through the document must change exactly the requested indices.
/// An error with its chain of sources (the outermost text alone says "credential revocation error").
fn err_chain(e: &dyn std::error::Error) -> String {
  let mut s = e.to_string();
  let mut cur = e.source();
  while let Some(c) = cur {
    s.push_str(": ");
    s.push_str(&c.to_string());
    cur = c.source();
  }
  s
}

fn foreign_encoder_scenario(core: &CoreDocument, sid: &str, model: &BTreeSet<u32>) {
  let ep = endpoint_of(core, sid);
  let Some(raw) = super::b64url_decode(&ep).and_then(|z| unzlib(&z)) else { return };
  match ctx::choose(4) {
    3 => {
      // the service endpoint written as a one-element array (a set of one URL): the same endpoint
      let mut v = match serde_json::to_value(core) {
        Ok(v) => v,
        Err(_) => return,
      };
      let mut done = false;
      if let Some(a) = v.get_mut("service").and_then(|s| s.as_array_mut()) {
        if let Some(svc) = a.iter_mut().find(|s| s.get("id").and_then(|i| i.as_str()) == Some(sid)) {
          if let Some(ep_full) = svc.get("serviceEndpoint").and_then(|e| e.as_str()).map(str::to_owned) {
            svc["serviceEndpoint"] = serde_json::json!([ep_full]);
            done = true;
          }
        }
      }
      let Some(mut doc) = done.then(|| CoreDocument::from_json_value(v).ok()).flatten() else { return };
      ctx::stat("probe.endpoint_as_one_element_array");
      ctx::sched("epset", 1);
      let got = ctx::catch(|| doc.resolve_revocation_bitmap(sid.into()).map_err(|e| e.to_string())).unwrap_or_else(|p| Err(format!("panic: {p}")));
      let qs: Vec<u32> = model.iter().copied().take(16).chain([0u32, 1, 65_536, u32::MAX]).collect();
      check_bitmap("endpoint-as-one-element-array", got, model, &qs, &ep);
      // ... and the issuer can still maintain it
      let far = 9_000_000 + ctx::choose(1000) as u32;
      match doc.revoke_credentials(sid, &[far]) {
        Err(e) => ctx::violation(
          "C06",
          "C06.endpoint_round_trip",
          "endpoint-as-one-element-array/update-fails",
          format!("revoke_credentials on a service whose endpoint is a one-element array failed: {}", err_chain(&e)),
        ),
        Ok(()) => {
          let mut want = model.clone();
          want.insert(far);
          let ep2 = endpoint_of(&doc, sid);
          let got = ctx::catch(|| doc.resolve_revocation_bitmap(sid.into()).map_err(|e| e.to_string())).unwrap_or_else(|p| Err(format!("panic: {p}")));
          check_bitmap("endpoint-as-one-element-array/after-update", got, &want, &[far, 0, 1], &ep2);
        }
      }
    }
    2 => {
      // the same compressed bytes in another spelling of base64: the alphabet the `;base64` label of a data URL denotes
      // (`+` `/`), with or without padding, or the URL-safe alphabet with padding (the default of many encoders)
      let mut other = match ctx::choose(3) {
        0 => ep.replace('-', "+").replace('_', "/"),
        1 => ep.replace('-', "+").replace('_', "/"),
        _ => ep.clone(),
      };
      if ctx::choose(2) == 0 || other == ep {
        while other.len() % 4 != 0 {
          other.push('=');
        }
      }
      if other == ep {
        return;
      }
      ctx::stat("probe.endpoint_in_another_base64_spelling");
      ctx::sched("b64spelling", other.len() as u64);
      let Some(doc) = with_endpoint(core, sid, &other) else { return };
      let got = ctx::catch(|| doc.resolve_revocation_bitmap(sid.into()).map_err(|e| e.to_string())).unwrap_or_else(|p| Err(format!("panic: {p}")));
      let qs: Vec<u32> = model.iter().copied().take(16).chain([0u32, 1, 65_536, u32::MAX]).collect();
      check_bitmap("other-base64-spelling", got, model, &qs, &other);
    }
    0 => {
      let level = [0u32, 1, 9][ctx::choose(3)];
      ctx::stat("probe.endpoint_compressed_at_another_level");
      ctx::sched("zlevel", level as u64);
      let other = crate::core::b64::encode(zlib(&raw, level));
      let Some(doc) = with_endpoint(core, sid, &other) else { return };
      let got = ctx::catch(|| doc.resolve_revocation_bitmap(sid.into()).map_err(|e| e.to_string())).unwrap_or_else(|p| Err(format!("panic: {p}")));
      let qs: Vec<u32> = model.iter().copied().take(16).chain([0u32, 1, 65_536, u32::MAX]).collect();
      check_bitmap(&format!("zlib-level-{level}"), got, model, &qs, &other);
    }
    _ => {
      // one run [start, start + len] in the container of the high 16 bits `key`; standard format with run flags
      let key: u16 = ctx::choose(3) as u16;
      let start: u16 = ctx::choose(100) as u16;
      let len_minus_one: u16 = 4096 + ctx::choose(200) as u16;
      let mut bytes: Vec<u8> = Vec::new();
      bytes.extend_from_slice(&(12347u32).to_le_bytes()); // SERIAL_COOKIE, (containers - 1) << 16 = 0
      bytes.push(0b0000_0001); // run flag of container 0
      bytes.extend_from_slice(&key.to_le_bytes());
      bytes.extend_from_slice(&len_minus_one.to_le_bytes()); // cardinality - 1
      bytes.extend_from_slice(&1u16.to_le_bytes()); // number of runs
      bytes.extend_from_slice(&start.to_le_bytes());
      bytes.extend_from_slice(&len_minus_one.to_le_bytes());
      let base = (key as u32) << 16 | start as u32;
      let set: BTreeSet<u32> = (base..=base + len_minus_one as u32).collect();
      ctx::stat("probe.endpoint_with_run_container");
      ctx::sched("runc", base as u64 ^ (len_minus_one as u64) << 32);
      let ep2 = crate::core::b64::encode(zlib(&bytes, 6));
      let Some(mut doc) = with_endpoint(core, sid, &ep2) else { return };
      let qs: Vec<u32> = vec![base, base + 1, base + len_minus_one as u32, base + len_minus_one as u32 + 1, base.wrapping_sub(1), 1_000_000];
      let got = ctx::catch(|| doc.resolve_revocation_bitmap(sid.into()).map_err(|e| e.to_string())).unwrap_or_else(|p| Err(format!("panic: {p}")));
      if got.is_err() {
        // a reader that does not support run containers at all says so here: not what this scenario is about
        ctx::stat("observation.run_container_not_readable");
        return;
      }
      check_bitmap("run-container", got, &set, &qs, &ep2);
      // an update that does not touch the run's container
      let far = 7_000_000 + ctx::choose(1000) as u32;
      let unrevoke = ctx::choose(2) == 0;
      let r = if unrevoke { doc.unrevoke_credentials(sid, &[far]) } else { doc.revoke_credentials(sid, &[far]) };
      let mut want = set.clone();
      if !unrevoke {
        want.insert(far);
      }
      match r {
        Err(e) => ctx::violation("C06", "C06.endpoint_round_trip", "run-container/update-fails", format!("update of a service read from a run-container endpoint failed: {e}")),
        Ok(()) => {
          let ep3 = endpoint_of(&doc, sid);
          let got = ctx::catch(|| doc.resolve_revocation_bitmap(sid.into()).map_err(|e| e.to_string())).unwrap_or_else(|p| Err(format!("panic: {p}")));
          let mut qs2 = qs.clone();
          qs2.push(far);
          check_bitmap("run-container/after-update", got, &want, &qs2, &ep3);
        }
      }
    }
  }
}

/// Every service of `doc` with its decoded bitmap, selected by the harness by exact id (no library query).
fn bitmaps_by_exact_id(doc: &CoreDocument) -> Vec<(String, Option<RevocationBitmap>)> {
  doc
    .service()
    .iter()
    .map(|s| (s.id().to_string(), RevocationBitmap::try_from(s).ok()))
    .collect()
}

/// `did/archive#rev0` (prefilled, listed first) next to `did#rev0`. Which of the two an id designates when both match
/// is the library's choice; whatever it is, an update through an id must be visible through the same id, change
/// exactly the requested indices there, and leave every other service alone.
fn alias_scenario(core: &CoreDocument, sid: &str, next_seq: &mut u32) {
  let (did, frag) = sid.split_once('#').unwrap();
  let alias = format!("{did}/archive#{frag}");
  let mut prefilled = RevocationBitmap::new();
  let base = 1000 + ctx::choose(1000) as u32;
  for i in 0..8 {
    prefilled.revoke(base + i);
  }
  let Ok(alias_svc) = prefilled.to_service(DIDUrl::parse(&alias).unwrap()) else { return };
  let mut v = serde_json::to_value(core).unwrap();
  let Some(arr) = v.get_mut("service").and_then(|s| s.as_array_mut()) else { return };
  let at = if ctx::choose(4) == 0 { arr.len() } else { 0 };
  arr.insert(at, serde_json::to_value(&alias_svc).unwrap());
  let Ok(mut doc) = CoreDocument::from_json_value(v) else { return };
  ctx::stat("probe.alias_service_same_did_and_fragment");
  ctx::sched("alias", at as u64);
  for step in 0..1 + ctx::choose(3) {
    let query: String = match ctx::choose(3) {
      0 => alias.clone(),
      1 => sid.to_owned(),
      _ => frag.to_owned(),
    };
    let unrevoke = ctx::choose(3) == 0;
    let mut batch: Vec<u32> = Vec::new();
    for _ in 0..1 + ctx::choose(4) {
      batch.push(match ctx::choose(3) {
        0 => base + ctx::choose(10) as u32,
        1 => {
          *next_seq += 1;
          *next_seq
        }
        _ => ctx::choose(40) as u32,
      });
    }
    let before_all = bitmaps_by_exact_id(&doc);
    let Ok(before) = doc.resolve_revocation_bitmap(query.as_str().into()) else { return };
    let r = if unrevoke {
      doc.unrevoke_credentials(query.as_str(), &batch)
    } else {
      doc.revoke_credentials(query.as_str(), &batch)
    };
    let op = if unrevoke { "unrevoke" } else { "revoke" };
    ctx::trace(format!("alias step {step}: {op}_credentials({query}, {batch:?}) -> {}", if r.is_ok() { "Ok" } else { "Err" }));
    if r.is_err() {
      ctx::violation("C06", "C06.endpoint_round_trip", format!("alias/{op}/update-fails"), format!("{op}_credentials({query}) failed"));
      return;
    }
    // (a) visible through the same id, exactly the requested indices
    let after = match doc.resolve_revocation_bitmap(query.as_str().into()) {
      Ok(b) => b,
      Err(e) => {
        ctx::violation("C06", "C06.endpoint_round_trip", "alias/does-not-decode", format!("bitmap of {query} no longer decodes: {e}"));
        return;
      }
    };
    let mut probe: BTreeSet<u32> = batch.iter().copied().collect();
    probe.extend((0..12).map(|i| base + i));
    probe.extend(0..40u32);
    probe.extend((*next_seq).saturating_sub(6)..*next_seq + 2);
    for q in &probe {
      let want = if batch.contains(q) { !unrevoke } else { before.is_revoked(*q) };
      if after.is_revoked(*q) != want {
        ctx::violation(
          "C06",
          "C06.exact_membership",
          format!("alias/{op}/{}", if batch.contains(q) { "requested-index-unchanged-through-same-id" } else { "other-index-changed" }),
          format!("after {op}_credentials({query}, {batch:?}) index {q} is {} in the bitmap the same id resolves to", if want { "not a member" } else { "a member" }),
        );
        return;
      }
    }
    // (b) at most one service changed, one whose DID and fragment the id names, and only in the requested indices
    let after_all = bitmaps_by_exact_id(&doc);
    let mut changed = 0;
    for ((id, b), (_, a)) in before_all.iter().zip(after_all.iter()) {
      let (Some(b), Some(a)) = (b, a) else { continue };
      let differs: Vec<u32> = probe.iter().copied().filter(|q| a.is_revoked(*q) != b.is_revoked(*q)).collect();
      if differs.is_empty() && a.len() == b.len() {
        continue;
      }
      changed += 1;
      let candidate = id == &alias || id == sid;
      if !candidate || differs.iter().any(|q| !batch.contains(q)) || changed > 1 {
        ctx::violation(
          "C06",
          "C06.exact_membership",
          format!("alias/{op}/unrelated-service-or-index-changed"),
          format!("{op}_credentials({query}, {batch:?}) changed indices {differs:?} of service {id}"),
        );
        return;
      }
    }
  }
}

fn issuer_core(doc: &AnyDoc) -> CoreDocument {
  doc.core().clone()
}

#[allow(clippy::too_many_arguments)]
fn after_update(
  core: &CoreDocument,
  sid: &str,
  unrevoke: bool,
  batch: &[u32],
  kind: &str,
  r: Result<(), String>,
  model: &mut BTreeMap<String, BTreeSet<u32>>,
  mentioned: &mut BTreeSet<u32>,
  step: usize,
) {
  ctx::sched(kind, batch.len() as u64);
  ctx::sched("unrevoke", unrevoke as u64);
  let op = if unrevoke { "unrevoke" } else { "revoke" };
  ctx::stat(if unrevoke { "probe.unrevoke_batch" } else { "probe.revoke_batch" });
  ctx::trace(format!(
    "step {step}: {op}_credentials({sid}, {} {kind} indices) -> {}",
    batch.len(),
    if r.is_ok() { "Ok" } else { "Err" }
  ));
  match r {
    Ok(()) => {
      let m = model.get_mut(sid).unwrap();
      for i in batch {
        mentioned.insert(*i);
        if unrevoke {
          m.remove(i);
        } else {
          m.insert(*i);
        }
      }
      // I6.1: the issuer's own document decodes again and changed exactly the requested indices
      let ep = endpoint_of(core, sid);
      let pfx: String = ep.chars().take(3).collect();
      ctx::stat(if pfx == "eJy" { "probe.endpoint_prefix.eJy" } else { "probe.endpoint_prefix.other" });
      let got = ctx::catch(|| core.resolve_revocation_bitmap(sid.into()).map_err(|e| e.to_string()))
        .unwrap_or_else(|p| Err(format!("panic: {p}")));
      let m = &model[sid];
      let qs = query_set(m, mentioned, batch);
      check_bitmap(&format!("after-{op}"), got, m, &qs, &ep);
      // a foreign-DID service sharing the fragment must never be touched by an update of the issuer's own service
      if let Ok(fb) = core.resolve_revocation_bitmap("did:sim:otherissuer#rev0".into()) {
        if fb.len() != 64 || !fb.is_revoked(0) || !fb.is_revoked(63) || fb.is_revoked(64) {
          ctx::violation(
            "C06",
            "C06.exact_membership",
            format!("after-{op}/foreign-service-with-same-fragment-modified"),
            format!("the bitmap of did:sim:otherissuer#rev0 changed (now {} members) when {sid} was updated", fb.len()),
          );
        }
      }
      // a verifier's copy of the document suffers bit rot in this service's endpoint; decoding the damaged copy may
      // fail (or not), but the intact document read right afterwards must still decode to the model
      if ctx::chance(1, 6) && ep.len() > 8 {
        let mut v = serde_json::to_value(core).unwrap();
        let mut flipped = false;
        if let Some(a) = v.get_mut("service").and_then(|s| s.as_array_mut()) {
          for svc in a.iter_mut() {
            if svc.get("id").and_then(|i| i.as_str()) == Some(sid) {
              if let Some(e) = svc.get("serviceEndpoint").and_then(|e| e.as_str()) {
                let body_at = e.len() - ep.len();
                let mut bytes = e.as_bytes().to_vec();
                let pos = body_at + 4 + ctx::choose(ep.len() - 4);
                const ALPHA: &[u8] = b"ABCDEFGHIJKLMNOPQRSTUVWXYZabcdefghijklmnopqrstuvwxyz0123456789-_";
                let mut c = ALPHA[ctx::choose(64)];
                if c == bytes[pos] {
                  c = if c == b'A' { b'B' } else { b'A' };
                }
                bytes[pos] = c;
                svc["serviceEndpoint"] = String::from_utf8(bytes).unwrap().into();
                flipped = true;
              }
            }
          }
        }
        if let (true, Ok(damaged)) = (flipped, CoreDocument::from_json_value(v)) {
          ctx::stat("fault.storage.endpoint_bit_rot");
          match ctx::catch(|| damaged.resolve_revocation_bitmap(sid.into()).map_err(|e| e.to_string())) {
            Ok(Err(_)) => ctx::stat("probe.damaged_endpoint_rejected"),
            Ok(Ok(_)) => ctx::stat("observation.damaged_endpoint_decoded"),
            Err(_) => ctx::stat("observation.damaged_endpoint_panic"),
          }
          let again = ctx::catch(|| core.resolve_revocation_bitmap(sid.into()).map_err(|e| e.to_string()))
            .unwrap_or_else(|p| Err(format!("panic: {p}")));
          check_bitmap(&format!("after-{op}/after-damaged-copy"), again, m, &qs, &ep);
        }
      }
      // other services untouched
      for (other, om) in model.iter() {
        if other != sid {
          let got = core.resolve_revocation_bitmap(other.as_str().into()).map_err(|e| e.to_string());
          let oep = endpoint_of(core, other);
          check_bitmap("other-service", got, om, &query_set(om, mentioned, batch), &oep);
        }
      }
    }
    Err(e) => {
      // The service exists and held a decodable bitmap before (checked after the previous step): an update that
      // fails means the issuer can no longer maintain its own bitmap.
      ctx::violation(
        "C06",
        "C06.endpoint_round_trip",
        format!("{op}/update-of-own-service-fails"),
        format!(
          "{op}_credentials on the issuer's own service {sid} failed: {e} (services of the document: {:?})",
          core.service().iter().map(|s| s.id().to_string()).collect::<Vec<_>>()
        ),
      );
    }
  }
}
