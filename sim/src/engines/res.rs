//! `res` — resolver scheduling simulator (C20).
//!
//! Real code: `Resolver` (both command flavours), `FuturesUnordered`/`try_collect` inside `resolve_multiple`,
//! `attach_did_jwk_handler`, `CoreDocument::expand_did_jwk`, the `IotaDID`/`DIDJwk`/`CoreDID` parsers used for
//! dispatch. Stub: the handlers — each handler invocation parks on gates that only the simulator opens, so the
//! completion order of the concurrently polled handler futures is exactly the gate-opening order chosen by the tape.

use crate::core::batch::Engine;
use crate::core::batch::Params;
use crate::core::ctx;
use crate::core::exec::Exec;
use identity_core::convert::ToJson;
use identity_did::CoreDID;
use identity_did::DID;
use identity_document::document::CoreDocument;
use identity_iota_core::IotaDID;
use identity_resolver::ErrorCause;
use identity_resolver::Resolver;
use identity_resolver::SingleThreadedResolver;
use std::cell::RefCell;
use std::collections::BTreeMap;
use std::collections::BTreeSet;
use std::collections::HashMap;
use std::future::Future;
use std::pin::Pin;
use std::task::Context;
use std::task::Poll;
use std::task::Waker;

pub struct ResEngine;

#[derive(Clone, Debug)]
struct Plan {
  stages: usize,
  ok: bool,
  nonce: u32,
}

#[derive(Default)]
struct ResState {
  plans: BTreeMap<String, Plan>,
  open: BTreeMap<String, usize>,
  /// (did, invocation id) → waker of the parked gate
  parked: BTreeMap<(String, u64), Waker>,
  /// (handler attached for method, did it was called with)
  invocations: Vec<(String, String)>,
  next_inv: u64,
  /// order in which gated handler futures completed in the current phase
  completions: Vec<String>,
  dropped_while_parked: u64,
  /// DIDs whose handler never completes in the current phase (the driver never opens their gate)
  hung: BTreeSet<String>,
}

thread_local! {
  static RES: RefCell<ResState> = RefCell::new(ResState::default());
}

fn st<R>(f: impl FnOnce(&mut ResState) -> R) -> R {
  RES.with(|s| f(&mut s.borrow_mut()))
}

struct Gate {
  did: String,
  inv: u64,
  passed: usize,
  need: usize,
  parked: bool,
}

impl Future for Gate {
  type Output = ();
  fn poll(mut self: Pin<&mut Self>, cx: &mut Context<'_>) -> Poll<()> {
    let this = &mut *self;
    st(|s| {
      let opened = s.open.get(&this.did).copied().unwrap_or(0);
      this.passed = opened.min(this.need);
      if this.passed >= this.need {
        s.parked.remove(&(this.did.clone(), this.inv));
        this.parked = false;
        Poll::Ready(())
      } else {
        s.parked.insert((this.did.clone(), this.inv), cx.waker().clone());
        this.parked = true;
        Poll::Pending
      }
    })
  }
}

impl Drop for Gate {
  fn drop(&mut self) {
    if self.parked {
      // The resolver dropped a handler future that was still waiting (legal after an early error).
      let _ = RES.try_with(|s| {
        if let Ok(mut s) = s.try_borrow_mut() {
          s.parked.remove(&(self.did.clone(), self.inv));
          s.dropped_while_parked += 1;
        }
      });
    }
  }
}

#[derive(Debug)]
struct PlannedFailure(String);
impl std::fmt::Display for PlannedFailure {
  fn fmt(&self, f: &mut std::fmt::Formatter<'_>) -> std::fmt::Result {
    f.write_str(&self.0)
  }
}
impl std::error::Error for PlannedFailure {}

fn planned_doc(did: &str, nonce: u32) -> CoreDocument {
  let mut props = identity_core::common::Object::new();
  props.insert("simNonce".to_owned(), serde_json::Value::from(nonce));
  identity_document::document::DocumentBuilder::new(props)
    .id(CoreDID::parse(did).expect("planned did parses"))
    .build()
    .expect("planned document builds")
}

async fn handler_body(handler_method: String, did: String) -> Result<CoreDocument, PlannedFailure> {
  let (inv, plan) = st(|s| {
    s.invocations.push((handler_method.clone(), did.clone()));
    s.next_inv += 1;
    (s.next_inv, s.plans.get(&did).cloned())
  });
  let plan = plan.unwrap_or(Plan {
    stages: 0,
    ok: false,
    nonce: 0,
  });
  Gate {
    did: did.clone(),
    inv,
    passed: 0,
    need: plan.stages,
    parked: false,
  }
  .await;
  if plan.stages > 0 {
    // Only gated completions are recorded: their order is decided by the tape, whereas handler futures that are
    // ready at their first poll complete in the resolver's HashSet order, which the property does not constrain.
    st(|s| s.completions.push(did.clone()));
  }
  if plan.ok {
    Ok(planned_doc(&did, plan.nonce))
  } else {
    Err(PlannedFailure(format!("planned failure for {did}")))
  }
}

// method names that are prefixes of one another: dispatch must be by the exact method name
const METHODS: [&str; 4] = ["foo", "foobar", "ba", "bar"];
// method-specific ids that differ only in case, or carry an extra segment: distinct DIDs must stay distinct
// (the last two differ only in the case of a hex digit of a percent-encoded octet: different strings, different DIDs)
const IDS: [&str; 6] = ["a1", "A1", "b2", "x:a1", "p%3Aq", "p%3aq"];

/// What the oracle expects from resolving one DID.
#[derive(Clone, Debug, PartialEq)]
enum Expect {
  Doc(u32),
  JwkDoc(String),
  HandlerError(String),
  Unsupported(String),
  ParseError,
}

fn make_jwk_did() -> (String, String) {
  // A public OKP/Ed25519, EC/P-256 or RSA JWK with coordinates and optional members drawn from the tape.
  let x = crate::core::b64::encode(ctx::bytes(32));
  let mut jwk: serde_json::Value = match ctx::choose(5) {
    3 => {
      // a BBS+ public key (BLS12381G2): also a JWK, also a did:jwk
      let y = crate::core::b64::encode(ctx::bytes(48));
      serde_json::json!({"kty":"EC","crv":"BLS12381G2","x": crate::core::b64::encode(ctx::bytes(48)), "y": y})
    }
    4 => serde_json::json!({"kty":"OKP","crv":"X25519","x": x}),
    0 => serde_json::json!({"kty":"OKP","crv":"Ed25519","x": x}),
    1 => {
      let y = crate::core::b64::encode(ctx::bytes(32));
      // curve names as they occur in the wild: the registered ones and the legacy name of secp256k1
      let crv = ["P-256", "P-256", "secp256k1", "P-256K", "P-384", "P-521"][ctx::choose(6)];
      serde_json::json!({"kty":"EC","crv": crv, "x": x, "y": y})
    }
    _ => {
      // moduli of 512 to 4096 bits (the encoded DID of the largest is well beyond a kilobyte)
      let mut n = ctx::bytes(64);
      n.resize([64usize, 256, 384, 512][ctx::choose(4)], 0x5a);
      // (public exponents as encoders write them: minimal, or with leading zero octets)
      let e = ["AQAB", "AQAB", "AAEAAQ", "AAAAAQAB", "Aw"][ctx::choose(5)];
      serde_json::json!({"kty":"RSA","n": crate::core::b64::encode(n), "e": e})
    }
  };
  // optional members: the expanded document must carry exactly the key encoded in the DID, members included
  if ctx::chance(1, 3) {
    jwk["use"] = "sig".into();
  }
  if ctx::chance(1, 3) {
    jwk["key_ops"] = match ctx::choose(3) {
      0 => serde_json::json!(["verify"]),
      1 => serde_json::json!(["verify", "encrypt"]),
      _ => serde_json::json!(["wrapKey"]),
    };
    if let Some(o) = jwk.as_object_mut() {
      o.remove("use");
    }
  }
  if ctx::chance(1, 3) {
    jwk["alg"] = ["EdDSA", "ES256", "RS256"][ctx::choose(3)].into();
  }
  if ctx::chance(1, 3) {
    jwk["kid"] = format!("key-{}", ctx::choose(100)).into();
  }
  if ctx::chance(1, 4) {
    // (three of four spellings are not what a URL normaliser prints: explicit default port, no path, upper-case host)
    jwk["x5u"] = ["https://certs.example/chain.pem", "https://certs.example:443/chain.pem", "https://certs.example", "https://Certs.Example/chain.pem"]
      [ctx::choose(4)]
    .into();
  }
  if ctx::chance(1, 4) {
    jwk["x5t"] = crate::core::b64::encode(ctx::bytes(20)).into();
  }
  if ctx::chance(1, 4) {
    jwk["x5t#S256"] = crate::core::b64::encode(ctx::bytes(32)).into();
  }
  if ctx::chance(1, 4) {
    jwk["x5c"] = serde_json::json!(["MIIBszCCAVmgAwIBAgIUSimCert"]);
  }
  let jwk_json = jwk.to_string();
  let did = format!("did:jwk:{}", crate::core::b64::encode(jwk_json.as_bytes()));
  (did, jwk_json)
}

/// Different did:jwk DIDs that encode the same key material as `jwk_json`: the JWK itself, the JWK with another `kid`
/// / `alg` / `use`, its members in reverse order, and with insignificant whitespace. Returns (DID, JWK text).
fn jwk_variants(jwk_json: &str) -> Vec<(String, String)> {
  let base: serde_json::Value = serde_json::from_str(jwk_json).unwrap();
  let did_of = |text: &str| format!("did:jwk:{}", crate::core::b64::encode(text.as_bytes()));
  let mut out = vec![(did_of(jwk_json), jwk_json.to_owned())];
  let mut with_kid = base.clone();
  with_kid["kid"] = "another-kid".into();
  out.push((did_of(&with_kid.to_string()), with_kid.to_string()));
  let mut other_alg = base.clone();
  other_alg["alg"] = if base.get("alg").and_then(|a| a.as_str()) == Some("EdDSA") { "ES256".into() } else { "EdDSA".into() };
  out.push((did_of(&other_alg.to_string()), other_alg.to_string()));
  let members: Vec<String> = base
    .as_object()
    .unwrap()
    .iter()
    .rev()
    .map(|(k, v)| format!("{}:{}", serde_json::Value::from(k.as_str()), v))
    .collect();
  let reversed = format!("{{{}}}", members.join(","));
  out.push((did_of(&reversed), reversed));
  let spaced = format!("{{ {} }}", members.join(" , "));
  out.push((did_of(&spaced), spaced));
  out
}

fn classify_err(e: &identity_resolver::Error) -> Expect {
  match e.error_cause() {
    ErrorCause::DIDParsingError { .. } => Expect::ParseError,
    ErrorCause::HandlerError { source, .. } => Expect::HandlerError(source.to_string()),
    ErrorCause::UnsupportedMethodError { method } => Expect::Unsupported(method.clone()),
    other => Expect::HandlerError(format!("unexpected cause {other:?}")),
  }
}

fn describe(doc: &CoreDocument) -> (String, Option<u64>) {
  (
    doc.id().to_string(),
    doc.properties().get("simNonce").and_then(|v| v.as_u64()),
  )
}

/// Checks a successfully resolved document against the expectation.
fn check_doc(prop: &str, ctxt: &str, did: &str, doc: &CoreDocument, exp: &Expect) {
  match exp {
    Expect::Doc(nonce) => {
      let (id, n) = describe(doc);
      if id != did || n != Some(*nonce as u64) {
        ctx::violation(
          prop,
          "C20.result_is_handler_result",
          format!("{ctxt}/wrong-document"),
          format!("{did}: got document id={id} nonce={n:?}, planned nonce {nonce}"),
        );
      }
    }
    Expect::JwkDoc(jwk_json) => {
      let want: serde_json::Value = serde_json::from_str(jwk_json).unwrap();
      let methods: Vec<_> = doc.methods(None);
      let ok = doc.id().as_str() == did
        && methods.len() == 1
        && match methods[0].data() {
          identity_verification::MethodData::PublicKeyJwk(jwk) => {
            serde_json::to_value(jwk).map(|v| v == want).unwrap_or(false)
          }
          _ => false,
        };
      // the one difference being the spelling of the `x5u` member (a URL; held as a parsed URL and written back
      // normalised) has a signature of its own
      let only_x5u = doc.id().as_str() == did
        && methods.len() == 1
        && match methods[0].data() {
          identity_verification::MethodData::PublicKeyJwk(jwk) => serde_json::to_value(jwk)
            .map(|mut v| {
              v != want && want.get("x5u").is_some() && {
                v["x5u"] = want["x5u"].clone();
                v == want
              }
            })
            .unwrap_or(false),
          _ => false,
        };
      if only_x5u {
        ctx::violation(
          prop,
          "C20.did_jwk_expansion",
          "did-jwk/x5u-member-rewritten",
          format!("{did}: the expanded document carries the key with another x5u than {jwk_json}: {}", doc.to_json().unwrap_or_default()),
        );
      } else if !ok {
        ctx::violation(
          prop,
          "C20.did_jwk_expansion",
          format!("{ctxt}/jwk-mismatch"),
          format!("{did}: expanded document {} does not carry exactly {jwk_json}", doc.to_json().unwrap_or_default()),
        );
      }
    }
    other => ctx::violation(
      prop,
      "C20.error_expected",
      format!("{ctxt}/ok-instead-of-error"),
      format!("{did}: resolved although {other:?} was expected"),
    ),
  }
}

enum ResolverKind {
  SendSync(Resolver<CoreDocument>),
  Single(SingleThreadedResolver<CoreDocument>),
}

macro_rules! attach_all {
  ($resolver:ident, $methods:expr, $iota:expr, $jwk:expr, $reattach:expr) => {{
    if $reattach {
      // handlers registered first and then REPLACED by the ones below ("If there already exists a handler for this
      // method then it will be replaced"): they must never run
      for m in $methods.iter() {
        let hm: String = format!("{m}@replaced");
        $resolver.attach_handler((*m).to_owned(), move |did: CoreDID| {
          let hm = hm.clone();
          async move { handler_body(hm, did.into_string()).await }
        });
      }
      if $iota {
        $resolver.attach_handler("iota".to_owned(), move |did: CoreDID| async move {
          handler_body("iota@replaced".to_owned(), did.into_string()).await
        });
      }
    }
    for m in $methods.iter() {
      let hm: String = (*m).to_owned();
      $resolver.attach_handler(hm.clone(), move |did: CoreDID| {
        let hm = hm.clone();
        async move { handler_body(hm, did.into_string()).await }
      });
    }
    if $iota {
      $resolver.attach_handler("iota".to_owned(), move |did: IotaDID| async move {
        handler_body("iota".to_owned(), did.as_str().to_owned()).await
      });
    }
    if $jwk {
      $resolver.attach_did_jwk_handler();
    }
  }};
}

/// Drives `fut` (spawned as the root task) under the tape. The root is polled whenever it has been woken (a
/// deterministic drain that consumes no tape: how often FuturesUnordered re-wakes itself depends on the resolver's
/// HashSet order, which must not leak into the tape); between drains the tape opens one or several gates, injects
/// spurious wakes, or stalls every handler. Returns the number of drain rounds, or None after a liveness violation.
fn drive<'a, T: 'a>(
  prop: &str,
  phase: &str,
  fut: impl Future<Output = T> + 'a,
  out: &'a RefCell<Option<T>>,
  allow_stall: bool,
) -> Option<u64> {
  let mut ex = Exec::new();
  let root = ex.spawn("root", async move {
    let v = fut.await;
    *out.borrow_mut() = Some(v);
  });
  // polls the root while it is woken; more than 8 consecutive self-wakes without any gate opening is a busy loop
  let drain = |ex: &mut Exec<'a>| -> bool {
    let mut n = 0;
    while !ex.is_done(root) && !ex.runnable().is_empty() {
      ex.poll(root);
      n += 1;
      if n > 8 {
        return false;
      }
    }
    true
  };
  let mut rounds = 0u64;
  let stall_budget: u32 = if allow_stall && ctx::chance(1, 8) { 8 + ctx::choose(8) as u32 } else { 0 };
  if !drain(&mut ex) {
    ctx::violation(prop, "C20.no_busy_loop", format!("{phase}/busy-loop"), "root future keeps waking itself although no handler made progress");
    return None;
  }
  if stall_budget > 0 && !ex.is_done(root) {
    // Stalled handlers: nobody opens a gate for a while; the root must stay pending without waking itself.
    ctx::stat("fault.handler_stall");
    ctx::sched("stall", stall_budget as u64);
    for _ in 0..stall_budget {
      if !ex.runnable().is_empty() {
        ctx::violation(
          prop,
          "C20.no_busy_loop",
          format!("{phase}/busy-loop"),
          "root future woke itself while every remaining handler is stalled",
        );
        return None;
      }
    }
  }
  loop {
    if ex.is_done(root) {
      break;
    }
    rounds += 1;
    if rounds > 200 {
      ctx::violation(
        prop,
        "C20.bounded_completion",
        format!("{phase}/step-cap"),
        "root future still pending after 200 simulator rounds with all gates openable",
      );
      return None;
    }
    let parked: Vec<(String, u64)> = st(|s| s.parked.keys().filter(|k| !s.hung.contains(&k.0)).cloned().collect());
    if parked.is_empty() && st(|s| !s.hung.is_empty()) {
      // every handler that will ever complete has completed - one of them with an error - and the root is still
      // pending: the failure is being held back until a handler returns that never will
      ctx::violation(
        prop,
        "C20.fails_if_any_fails",
        format!("{phase}/failure-held-back-by-a-handler-that-never-completes"),
        "one handler has failed, the only handler still pending never completes, and resolve_multiple does not return the failure",
      );
      return None;
    }
    if parked.is_empty() {
      // nothing parked, root not woken (drained), root not done → lost wake-up
      ctx::violation(
        prop,
        "C20.no_lost_wakeup",
        format!("{phase}/lost-wakeup"),
        "root future pending, no handler parked, nobody woken",
      );
      return None;
    }
    match ctx::weighted(&[10, 1, 1]) {
      0 => {
        // open 1..3 gate stages before the root runs again (several handlers may complete in the same round)
        let batch = 1 + ctx::weighted(&[6, 2, 1]);
        for _ in 0..batch {
          let parked_now: Vec<(String, u64)> = st(|s| s.parked.keys().filter(|k| !s.hung.contains(&k.0)).cloned().collect());
          if parked_now.is_empty() {
            break;
          }
          let (did, _inv) = parked_now[ctx::choose(parked_now.len())].clone();
          let wakers = st(|s| {
            *s.open.entry(did.clone()).or_insert(0) += 1;
            s.parked
              .iter()
              .filter(|((d, _), _)| *d == did)
              .map(|(_, w)| w.clone())
              .collect::<Vec<_>>()
          });
          ctx::sched("open", crate::core::tape::Fnv::of(did.as_bytes()));
          for w in wakers {
            w.wake();
          }
          // the woken handler future only observes the opened gate when it is polled; poll now or let the
          // openings accumulate
          if ctx::choose(2) == 0 && !drain(&mut ex) {
            ctx::violation(prop, "C20.no_busy_loop", format!("{phase}/busy-loop"), "root future keeps waking itself");
            return None;
          }
        }
      }
      1 => {
        let key = parked[ctx::choose(parked.len())].clone();
        if let Some(w) = st(|s| s.parked.get(&key).cloned()) {
          ctx::stat("fault.spurious_wake_handler");
          ctx::sched("spur", 1);
          w.wake();
        }
      }
      _ => {
        ctx::stat("fault.spurious_wake_root");
        ctx::sched("spur", 2);
        ex.waker(root).wake();
      }
    }
    if !drain(&mut ex) {
      ctx::violation(prop, "C20.no_busy_loop", format!("{phase}/busy-loop"), "root future keeps waking itself");
      return None;
    }
  }
  Some(rounds)
}

impl Engine for ResEngine {
  fn name(&self) -> &'static str {
    "res"
  }

  fn rule(&self, _p: &str) -> String {
    "One run = one handler table (1-4 invented methods, optional IotaDID-typed handler, optional did:jwk handler, \
     SendSync or single-threaded command flavour), a DID list of 0-8 entries with duplicates / unsupported methods / \
     DIDs the handler's DID type rejects, and a plan per distinct DID (0-3 gate stages, success or failure); every \
     DID is resolved singly and then all together through the real Resolver under the seeded executor, the tape \
     choosing when each gate opens, spurious wakes and handler stalls. A run is non-trivial when resolve_multiple \
     had at least two gated handler futures in flight; distinct = distinct (gate-opening order, spurious/stall \
     vector) hashes. Completion permutations are counted per list length."
      .to_owned()
  }

  fn real_components(&self, _p: &str) -> Vec<&'static str> {
    vec![
      "identity_resolver::Resolver::{resolve, resolve_multiple, attach_handler, attach_did_jwk_handler}",
      "identity_resolver commands (SendSyncCommand, SingleThreadedCommand)",
      "futures::stream::FuturesUnordered + TryStreamExt::try_collect",
      "CoreDocument::expand_did_jwk, DIDJwk / IotaDID / CoreDID parsing",
    ]
  }
  fn stub_components(&self, _p: &str) -> Vec<&'static str> {
    vec!["resolution handlers for invented methods (gated futures owned by the simulator)"]
  }
  fn assumptions(&self, _p: &str) -> Vec<String> {
    vec![
      "handlers are pure with respect to the DID they are called with (the plan); the property quantifies over completion orders, not over handler side effects".to_owned(),
      "when several DIDs fail, which failing DID's error is reported is not constrained (HashSet order); the oracle accepts the error of any failing DID".to_owned(),
    ]
  }
  fn reproduce_attempts(&self) -> u32 {
    // the resolver's HashSet order is not behind a seam (see Engine::reproduce_attempts)
    64
  }
  fn required_probes(&self, _p: &str, tier: &str) -> Vec<String> {
    let mut v = vec![
      "fault.spurious_wake_handler".to_owned(),
      "fault.spurious_wake_root".to_owned(),
      "fault.handler_stall".to_owned(),
      "probe.multi_ok".to_owned(),
      "probe.multi_err".to_owned(),
      "probe.duplicates_in_list".to_owned(),
      "probe.unsupported_single".to_owned(),
      "probe.parse_error_single".to_owned(),
      "probe.did_jwk_resolved".to_owned(),
      "probe.did_jwk_same_key_variants_resolved_together".to_owned(),
      "probe.handlers_replaced_before_use".to_owned(),
      "probe.wide_list".to_owned(),
      "probe.did_text_with_blank_around".to_owned(),
      "fault.handler_never_completes".to_owned(),
    ];
    if tier == "thorough" {
      v.push("cover:perm4>=24".to_owned());
      v.push("cover:perm5>=120".to_owned());
    }
    v
  }

  fn run(&self, prop: &str, params: &Params) {
    RES.with(|s| *s.borrow_mut() = ResState::default());
    let max_list = params.get("max_list").copied().unwrap_or(8) as usize;

    // ---- configuration (swarm) ----
    let send_sync = ctx::choose(2) == 0;
    // any non-empty subset of the method names gets a handler (so that an attached name may be a prefix of an
    // unattached one and vice versa)
    let mask = 1 + ctx::choose(15);
    let methods: Vec<&str> = METHODS.iter().enumerate().filter(|(i, _)| mask >> i & 1 == 1).map(|(_, m)| *m).collect();
    let with_iota = ctx::choose(3) == 1;
    let with_jwk = ctx::choose(3) == 1;

    // ---- DID universe ----
    let mut universe: Vec<(String, Expect)> = Vec::new();
    for m in METHODS.iter() {
      for id in IDS {
        let did = format!("did:{m}:{id}");
        if methods.contains(m) {
          universe.push((did, Expect::Doc(0)));
        } else {
          universe.push((did, Expect::Unsupported((*m).to_owned())));
        }
      }
    }
    universe.push(("did:zzz:unsupported".to_owned(), Expect::Unsupported("zzz".to_owned())));
    {
      let tag: String = ctx::bytes(32).iter().map(|b| format!("{b:02x}")).collect();
      let good = format!("did:iota:0x{tag}");
      let good_net = format!("did:iota:smr:0x{tag}");
      let bad = "did:iota:not-a-tag".to_owned();
      if with_iota {
        universe.push((good, Expect::Doc(0)));
        universe.push((good_net, Expect::Doc(0)));
        universe.push((bad, Expect::ParseError));
      } else {
        universe.push((good, Expect::Unsupported("iota".to_owned())));
        universe.push((bad, Expect::Unsupported("iota".to_owned())));
      }
    }
    let jwk_base: Option<String>;
    {
      let (did, jwk) = make_jwk_did();
      jwk_base = Some(jwk.clone());
      let bad = "did:jwk:abc".to_owned();
      if with_jwk {
        universe.push((did, Expect::JwkDoc(jwk)));
        universe.push((bad, Expect::ParseError));
      } else {
        universe.push((did, Expect::Unsupported("jwk".to_owned())));
        universe.push((bad, Expect::Unsupported("jwk".to_owned())));
      }
    }

    // one run in a hundred resolves MANY distinct DIDs at once (more than any plausible internal window or batch size)
    let wide = ctx::chance(1, 100);
    if wide {
      ctx::stat("probe.wide_list");
      for k in 0..160 {
        universe.push((format!("did:{}:w{k}", methods[0]), Expect::Doc(0)));
      }
    }

    // ---- DID list ----
    // Failure-prone entries are rarer so that all-success lists (the order-independence clause) dominate.
    let list_len = if wide {
      70 + ctx::choose(120)
    } else if ctx::chance(1, 50) {
      ctx::stat("probe.long_list");
      20 + ctx::choose(30)
    } else {
      ctx::choose(max_list + 1)
    };
    let failure_bias = ctx::choose(4); // 0: only resolvable DIDs
    let mut list: Vec<String> = Vec::new();
    let good: Vec<usize> = universe
      .iter()
      .enumerate()
      .filter(|(_, (_, e))| matches!(e, Expect::Doc(_) | Expect::JwkDoc(_)))
      .map(|(i, _)| i)
      .collect();
    for _ in 0..list_len {
      let dup = !list.is_empty() && ctx::chance(1, 6);
      if dup {
        let i = ctx::choose(list.len());
        list.push(list[i].clone());
        continue;
      }
      let idx = if failure_bias == 0 || !ctx::chance(failure_bias as u32, 12) {
        good[ctx::choose(good.len())]
      } else {
        ctx::choose(universe.len())
      };
      list.push(universe[idx].0.clone());
    }
    let distinct: BTreeSet<String> = list.iter().cloned().collect();
    if distinct.len() < list.len() {
      ctx::stat("probe.duplicates_in_list");
    }

    // ---- plans ----
    let mut expect: BTreeMap<String, Expect> = BTreeMap::new();
    for did in &distinct {
      let base = universe.iter().find(|(d, _)| d == did).unwrap().1.clone();
      let e = match base {
        Expect::Doc(_) => {
          let stages = ctx::choose(4);
          let ok = failure_bias == 0 || !ctx::chance(1, 10);
          let nonce = ctx::draw_u32();
          st(|s| s.plans.insert(did.clone(), Plan { stages, ok, nonce }));
          if ok {
            Expect::Doc(nonce)
          } else {
            Expect::HandlerError(format!("planned failure for {did}"))
          }
        }
        other => other,
      };
      expect.insert(did.clone(), e);
    }
    ctx::trace(format!(
      "config flavour={} methods={:?} iota={} jwk={} list={:?}",
      if send_sync { "send_sync" } else { "single" },
      methods,
      with_iota,
      with_jwk,
      list
    ));
    for (d, e) in &expect {
      let p = st(|s| s.plans.get(d).cloned());
      ctx::trace(format!("plan {d}: {e:?} stages={:?}", p.map(|p| p.stages)));
    }

    // ---- build the resolver ----
    let reattach = ctx::choose(4) == 0;
    if reattach {
      ctx::stat("probe.handlers_replaced_before_use");
    }
    let mut resolver = if send_sync {
      let mut r: Resolver<CoreDocument> = Resolver::new();
      attach_all!(r, methods, with_iota, with_jwk, reattach);
      ResolverKind::SendSync(r)
    } else {
      let mut r: SingleThreadedResolver<CoreDocument> = SingleThreadedResolver::new();
      attach_all!(r, methods, with_iota, with_jwk, reattach);
      ResolverKind::Single(r)
    };

    // ---- phase 1: single resolution of every distinct DID ----
    let mut single: BTreeMap<String, Result<CoreDocument, Expect>> = BTreeMap::new();
    for did_s in &distinct {
      let did = CoreDID::parse(did_s).expect("universe DIDs are valid CoreDIDs");
      st(|s| {
        s.open.clear();
        s.parked.clear();
        s.invocations.clear();
        s.completions.clear();
      });
      let out: RefCell<Option<Result<CoreDocument, identity_resolver::Error>>> = RefCell::new(None);
      let polls = match &resolver {
        ResolverKind::SendSync(r) => drive(prop, "single", r.resolve(&did), &out, false),
        ResolverKind::Single(r) => drive(prop, "single", r.resolve(&did), &out, false),
      };
      if polls.is_none() {
        return;
      }
      let res = out.into_inner().expect("root finished");
      let exp = &expect[did_s];
      let inv = st(|s| s.invocations.clone());
      // dispatch: exactly the handler registered for the DID's method, with that DID
      let gated = matches!(exp, Expect::Doc(_) | Expect::HandlerError(_));
      if gated {
        if inv.len() != 1 || inv[0].0 != did.method() || inv[0].1 != *did_s {
          ctx::violation(
            prop,
            "C20.dispatch_exact_handler",
            "single/wrong-dispatch",
            format!("{did_s}: handler invocations {inv:?}"),
          );
        }
      } else if !inv.is_empty() {
        ctx::violation(
          prop,
          "C20.no_handler_for_unsupported",
          "single/handler-called",
          format!("{did_s}: expected {exp:?} but handlers were invoked: {inv:?}"),
        );
      }
      match &res {
        Ok(doc) => check_doc(prop, "single", did_s, doc, exp),
        Err(e) => {
          let got = classify_err(e);
          if got != *exp {
            ctx::violation(
              prop,
              "C20.result_is_handler_result",
              "single/wrong-error",
              format!("{did_s}: got {got:?}, expected {exp:?}"),
            );
          }
          match got {
            Expect::Unsupported(_) => ctx::stat("probe.unsupported_single"),
            Expect::ParseError => ctx::stat("probe.parse_error_single"),
            Expect::HandlerError(_) => ctx::stat("probe.handler_error_single"),
            _ => {}
          }
        }
      }
      if matches!(exp, Expect::JwkDoc(_)) && res.is_ok() {
        ctx::stat("probe.did_jwk_resolved");
      }
      ctx::trace(format!(
        "single {did_s} -> {}",
        match &res {
          Ok(d) => format!("Ok(nonce={:?})", describe(d).1),
          Err(e) => format!("Err({:?})", classify_err(e)),
        }
      ));
      single.insert(did_s.clone(), res.map_err(|e| classify_err(&e)));
    }

    // ---- phase 2: resolve_multiple ----
    st(|s| {
      s.open.clear();
      s.parked.clear();
      s.invocations.clear();
      s.completions.clear();
      s.dropped_while_parked = 0;
    });
    let dids: Vec<CoreDID> = list.iter().map(|d| CoreDID::parse(d).unwrap()).collect();
    let out: RefCell<Option<Result<HashMap<CoreDID, CoreDocument>, identity_resolver::Error>>> = RefCell::new(None);
    let polls = match &resolver {
      ResolverKind::SendSync(r) => drive(prop, "multi", r.resolve_multiple(&dids), &out, true),
      ResolverKind::Single(r) => drive(prop, "multi", r.resolve_multiple(&dids), &out, true),
    };
    let Some(polls) = polls else { return };
    let res = out.into_inner().expect("root finished");
    let mut inv = st(|s| s.invocations.clone());
    inv.sort();
    let completions = st(|s| s.completions.clone());

    // handlers: at most once per distinct DID, never with a DID of another method
    let mut seen: BTreeSet<&String> = BTreeSet::new();
    for (hm, d) in &inv {
      let m = d.split(':').nth(1).unwrap_or("");
      if hm != m {
        ctx::violation(
          prop,
          "C20.dispatch_exact_handler",
          "multi/wrong-dispatch",
          format!("handler for method {hm} invoked with {d}"),
        );
      }
      if !seen.insert(d) {
        ctx::violation(
          prop,
          "C20.once_per_distinct_did",
          "multi/duplicate-invocation",
          format!("handler invoked more than once for {d} in one resolve_multiple (list {list:?})"),
        );
      }
      if !distinct.contains(d) {
        ctx::violation(
          prop,
          "C20.dispatch_exact_handler",
          "multi/foreign-did",
          format!("handler invoked with {d} which is not in the list"),
        );
      }
    }

    let failing: Vec<(&String, &Expect)> = expect
      .iter()
      .filter(|(_, e)| !matches!(e, Expect::Doc(_) | Expect::JwkDoc(_)))
      .collect();
    let gated_in_flight = inv.len();
    match &res {
      Ok(map) => {
        ctx::stat("probe.multi_ok");
        if !failing.is_empty() {
          ctx::violation(
            prop,
            "C20.fails_if_any_fails",
            "multi/ok-despite-failure",
            format!("resolve_multiple returned Ok although {failing:?} must fail"),
          );
        }
        // exactly one entry per distinct DID
        let keys: BTreeSet<String> = map.keys().map(|k| k.to_string()).collect();
        if keys != distinct || map.len() != distinct.len() {
          ctx::violation(
            prop,
            "C20.one_entry_per_distinct_did",
            "multi/wrong-key-set",
            format!("result keys {keys:?} but distinct input DIDs {distinct:?}"),
          );
        }
        let mut entries: Vec<(&CoreDID, &CoreDocument)> = map.iter().collect();
        entries.sort_by(|a, b| a.0.as_str().cmp(b.0.as_str()));
        for (k, doc) in entries {
          let ks = k.to_string();
          if let Some(exp) = expect.get(&ks) {
            check_doc(prop, "multi", &ks, doc, exp);
          }
          // equal to what single resolution returned
          match single.get(&ks) {
            Some(Ok(sdoc)) => {
              if sdoc != doc {
                ctx::violation(
                  prop,
                  "C20.multi_equals_single",
                  "multi/differs-from-single",
                  format!(
                    "{ks}: resolve_multiple entry {:?} differs from single resolution {:?} (completion order {completions:?})",
                    describe(doc),
                    describe(sdoc)
                  ),
                );
              }
            }
            Some(Err(e)) => ctx::violation(
              prop,
              "C20.multi_equals_single",
              "multi/ok-where-single-failed",
              format!("{ks}: in result map although single resolution failed with {e:?}"),
            ),
            None => {}
          }
        }
        // the completion permutation reached (only all-success runs count)
        if completions.len() >= 2 {
          // rank of each completed DID among the completed ones (sorted by DID string): a permutation of 0..n
          let mut sorted: Vec<&String> = completions.iter().collect();
          sorted.sort();
          let order: Vec<usize> = completions
            .iter()
            .map(|c| sorted.iter().position(|d| *d == c).unwrap_or(0))
            .collect();
          ctx::cover(format!("perm{}:{:?}", completions.len(), order));
        }
      }
      Err(e) => {
        ctx::stat("probe.multi_err");
        let got = classify_err(e);
        if failing.is_empty() {
          ctx::violation(
            prop,
            "C20.multi_equals_single",
            "multi/err-without-failure",
            format!("resolve_multiple failed with {got:?} although every DID resolves singly"),
          );
        } else if !failing.iter().any(|(_, e)| **e == got) {
          ctx::violation(
            prop,
            "C20.fails_if_any_fails",
            "multi/error-of-no-failing-did",
            format!("error {got:?} is not the error of any failing DID {failing:?}"),
          );
        }
      }
    }
    // ---- phase 3: resolve_multiple typed with DIDJwk over different DIDs that encode the same key material ----
    if let (true, Some(base)) = (with_jwk, &jwk_base) {
      if ctx::choose(2) == 0 {
        let variants = jwk_variants(base);
        let mut input: Vec<(String, String)> = Vec::new();
        for _ in 0..2 + ctx::choose(4) {
          input.push(variants[ctx::choose(variants.len())].clone());
        }
        let typed: Vec<identity_did::DIDJwk> = input.iter().filter_map(|(d, _)| d.parse().ok()).collect();
        if typed.len() == input.len() {
          let distinct_in: BTreeSet<&str> = input.iter().map(|(d, _)| d.as_str()).collect();
          ctx::stat("probe.did_jwk_same_key_variants_resolved_together");
          ctx::sched("jwk_variants", distinct_in.len() as u64);
          let out: RefCell<Option<Result<HashMap<identity_did::DIDJwk, CoreDocument>, identity_resolver::Error>>> = RefCell::new(None);
          let polls = match &resolver {
            ResolverKind::SendSync(r) => drive(prop, "multi-jwk", r.resolve_multiple(&typed), &out, true),
            ResolverKind::Single(r) => drive(prop, "multi-jwk", r.resolve_multiple(&typed), &out, true),
          };
          if polls.is_none() {
            return;
          }
          match out.into_inner().expect("root finished") {
            Err(e) => ctx::violation(
              prop,
              "C20.one_entry_per_distinct_did",
              "multi-jwk/error",
              format!("resolve_multiple over did:jwk DIDs {input:?} failed: {e}"),
            ),
            Ok(m) => {
              let got: BTreeSet<String> = m.keys().map(|k| k.as_str().to_owned()).collect();
              let want: BTreeSet<String> = distinct_in.iter().map(|d| (*d).to_owned()).collect();
              if got != want || m.len() != want.len() {
                ctx::violation(
                  prop,
                  "C20.one_entry_per_distinct_did",
                  "multi-jwk/key-set-differs",
                  format!("{} distinct did:jwk DIDs of one key went in, {} entries came out", want.len(), m.len()),
                );
              } else {
                for (d, jwk_json) in &input {
                  match m.iter().find(|(k, _)| k.as_str() == d) {
                    Some((_, doc)) => check_doc(prop, "multi-jwk", d, doc, &Expect::JwkDoc(jwk_json.clone())),
                    None => unreachable!(),
                  }
                  // lookup by the typed key must hand out the document of that DID
                  if let Some(doc) = d.parse::<identity_did::DIDJwk>().ok().and_then(|k| m.get(&k)) {
                    check_doc(prop, "multi-jwk-get", d, doc, &Expect::JwkDoc(jwk_json.clone()));
                  }
                }
              }
            }
          }
          ctx::trace(format!("multi-jwk over {} variants of one key", distinct_in.len()));
        }
      }
    }
    // ---- phase 4: a handler for a so far unsupported method is attached AFTER the resolver has been used ----
    if ctx::choose(4) == 0 {
      let late = "did:zzz:unsupported".to_owned();
      macro_rules! attach_late {
        ($r:ident) => {
          $r.attach_handler("zzz".to_owned(), move |did: CoreDID| async move { handler_body("zzz".to_owned(), did.into_string()).await })
        };
      }
      match &mut resolver {
        ResolverKind::SendSync(r) => attach_late!(r),
        ResolverKind::Single(r) => attach_late!(r),
      }
      ctx::stat("probe.handler_attached_after_use");
      st(|s| {
        s.open.clear();
        s.parked.clear();
        s.invocations.clear();
        s.completions.clear();
        s.plans.insert(late.clone(), Plan { stages: 0, ok: true, nonce: 4242 });
      });
      let did = CoreDID::parse(&late).unwrap();
      let out: RefCell<Option<Result<CoreDocument, identity_resolver::Error>>> = RefCell::new(None);
      let polls = match &resolver {
        ResolverKind::SendSync(r) => drive(prop, "late", r.resolve(&did), &out, false),
        ResolverKind::Single(r) => drive(prop, "late", r.resolve(&did), &out, false),
      };
      if polls.is_none() {
        return;
      }
      let inv = st(|s| s.invocations.clone());
      if inv != vec![("zzz".to_owned(), late.clone())] {
        ctx::violation(prop, "C20.dispatch_exact_handler", "late/wrong-dispatch", format!("{late}: handler invocations {inv:?} after attaching a zzz handler"));
      }
      match out.into_inner().expect("root finished") {
        Ok(doc) => check_doc(prop, "late", &late, &doc, &Expect::Doc(4242)),
        Err(e) => ctx::violation(
          prop,
          "C20.result_is_handler_result",
          "late/error",
          format!("{late}: resolution failed after its handler was attached: {e}"),
        ),
      }
      ctx::trace("late attach of zzz handler".to_owned());
    }
    // ---- phase 5: a DID text with blanks or control characters before or behind it ----
    // The library may refuse the text. If it accepts it, the accepted DID's method is the one written in the text:
    // exactly that method's handler runs, or the error names exactly that method.
    if ctx::choose(6) == 0 {
      let m = METHODS[ctx::choose(METHODS.len())];
      let blank = [" ", "\n", "\t", "\n\n\n\n", "\u{1}", "  "][ctx::choose(6)];
      let before = ctx::choose(3) != 0;
      let text = if before { format!("{blank}did:{m}:a1") } else { format!("did:{m}:a1{blank}") };
      ctx::stat("probe.did_text_with_blank_around");
      match CoreDID::parse(&text) {
        Err(_) => ctx::stat("observation.did_text_with_blank_around_refused"),
        Ok(did) => {
          ctx::sched("wsdid", (blank.len() * 2 + before as usize) as u64);
          let shown = did.to_string();
          st(|s| {
            s.open.clear();
            s.parked.clear();
            s.invocations.clear();
            s.completions.clear();
            s.plans.insert(shown.clone(), Plan { stages: 0, ok: true, nonce: 777 });
          });
          let out: RefCell<Option<Result<CoreDocument, identity_resolver::Error>>> = RefCell::new(None);
          let polls = match &resolver {
            ResolverKind::SendSync(r) => drive(prop, "blank", r.resolve(&did), &out, false),
            ResolverKind::Single(r) => drive(prop, "blank", r.resolve(&did), &out, false),
          };
          if polls.is_none() {
            return;
          }
          let inv = st(|s| s.invocations.clone());
          let res = out.into_inner().expect("root finished");
          let attached = methods.contains(&m);
          let fine = if attached {
            inv.len() == 1 && inv[0].0 == m
          } else {
            inv.is_empty() && matches!(res.as_ref().map_err(classify_err), Err(Expect::Unsupported(ref u)) if u == m)
          };
          if !fine {
            ctx::violation(
              prop,
              "C20.dispatch_exact_handler",
              "accepted-did-text-with-blank-around/wrong-dispatch",
              format!(
                "{text:?} is accepted as a DID (method() = {:?}); method {m} {}: handler invocations {inv:?}, result {}",
                did.method(),
                if attached { "has a handler" } else { "has no handler" },
                match &res {
                  Ok(_) => "Ok".to_owned(),
                  Err(e) => format!("Err({:?})", classify_err(e)),
                }
              ),
            );
          }
          ctx::trace(format!("blank-around did text accepted, method {:?}", did.method()));
        }
      }
    }
    // ---- phase 6: a handler that never completes (fault: a resolution that hangs) next to one that fails ----
    // "fails if any one of them fails": the failure is reported although another handler is still pending - for ever.
    if ctx::choose(8) == 0 {
      let m = methods[ctx::choose(methods.len())];
      let hung = format!("did:{m}:hangs");
      let bad = format!("did:{m}:fails");
      let good = format!("did:{m}:fine");
      let mut list6: Vec<String> = vec![hung.clone(), bad.clone()];
      if ctx::choose(2) == 0 {
        list6.push(good.clone());
      }
      // (the order of the list is drawn as well)
      let k = ctx::choose(list6.len());
      list6.rotate_left(k);
      st(|s| {
        s.open.clear();
        s.parked.clear();
        s.invocations.clear();
        s.completions.clear();
        s.plans.insert(hung.clone(), Plan { stages: 1, ok: true, nonce: 1 });
        s.plans.insert(bad.clone(), Plan { stages: 1 + ctx::choose(2), ok: false, nonce: 2 });
        s.plans.insert(good.clone(), Plan { stages: ctx::choose(3), ok: true, nonce: 3 });
        s.hung.insert(hung.clone());
      });
      ctx::stat("fault.handler_never_completes");
      ctx::sched("hung", list6.len() as u64 * 8 + k as u64);
      let dids6: Vec<CoreDID> = list6.iter().map(|d| CoreDID::parse(d).expect("valid")).collect();
      let out: RefCell<Option<Result<HashMap<CoreDID, CoreDocument>, identity_resolver::Error>>> = RefCell::new(None);
      let polls = match &resolver {
        ResolverKind::SendSync(r) => drive(prop, "hung", r.resolve_multiple(&dids6), &out, false),
        ResolverKind::Single(r) => drive(prop, "hung", r.resolve_multiple(&dids6), &out, false),
      };
      st(|s| s.hung.clear());
      if polls.is_none() {
        return;
      }
      match out.into_inner() {
        Some(Err(e)) => {
          let got = classify_err(&e);
          if got != Expect::HandlerError(format!("planned failure for {bad}")) {
            ctx::violation(prop, "C20.fails_if_any_fails", "hung/error-of-no-failing-did", format!("error {got:?} is not the failure of {bad}"));
          }
        }
        Some(Ok(_)) => ctx::violation(prop, "C20.fails_if_any_fails", "hung/ok-despite-failure", format!("resolve_multiple returned Ok although {bad} fails")),
        None => {}
      }
      ctx::trace("hung handler next to a failing one".to_owned());
    }
    if gated_in_flight >= 2 {
      ctx::mark_nontrivial();
    }
    ctx::stat_max("max.gated_in_flight", gated_in_flight as u64);
    let _ = polls;
    // Only order-independent facts go into the trace of the multi phase (see DESIGN §4.3).
    ctx::trace(format!(
      "multi -> {} ; completion order {:?}",
      match &res {
        Ok(m) => format!("Ok({} entries)", m.len()),
        Err(_) => "Err(one of the failing DIDs)".to_owned(),
      },
      if res.is_ok() { completions.clone() } else { Vec::new() }
    ));
  }
}
