//! Reference model of a DID document as a set of entries (DESIGN Appendix E.2). Shares no code with the library:
//! it works on the document's JSON form and on id strings.

use serde_json::Value;
use std::collections::BTreeMap;
use std::collections::BTreeSet;

pub const RELS: [&str; 5] = [
  "authentication",
  "assertionMethod",
  "keyAgreement",
  "capabilityDelegation",
  "capabilityInvocation",
];

#[derive(Clone, Debug, PartialEq)]
pub enum MRef {
  Embed(Value),
  Refer(String),
}

impl MRef {
  pub fn id(&self) -> &str {
    match self {
      MRef::Embed(v) => v.get("id").and_then(Value::as_str).unwrap_or(""),
      MRef::Refer(s) => s,
    }
  }
}

pub fn vid(v: &Value) -> &str {
  v.get("id").and_then(Value::as_str).unwrap_or("")
}

/// Scope of a method: None = general purpose (`verificationMethod`), Some(i) = embedded in relationship RELS[i].
pub type Scope = Option<usize>;

#[derive(Clone, Debug, PartialEq)]
pub struct ModelDoc {
  pub id: String,
  pub vm: Vec<Value>,
  pub rel: [Vec<MRef>; 5],
  pub services: Vec<Value>,
  /// every other top-level member, untouched by the mutators
  pub rest: BTreeMap<String, Value>,
}

fn split(id: &str) -> (&str, &str) {
  match id.rfind('#') {
    Some(i) => (&id[..i], &id[i + 1..]),
    None => (id, ""),
  }
}

/// The documented query semantics: a full DID URL matches on DID and fragment, anything else on fragment only.
pub fn query_matches(query: &str, id: &str) -> bool {
  let (id_did, id_frag) = split(id);
  if id_frag.is_empty() {
    return false;
  }
  if query.starts_with("did:") {
    let (q_did, q_frag) = split(query);
    q_did == id_did && !q_frag.is_empty() && q_frag == id_frag
  } else {
    let q_frag = query.rsplit('#').next().unwrap_or("");
    !q_frag.is_empty() && q_frag == id_frag
  }
}

#[derive(Debug, PartialEq)]
pub enum Refusal {
  Refused,
}

impl ModelDoc {
  pub fn empty(id: &str) -> Self {
    ModelDoc {
      id: id.to_owned(),
      vm: Vec::new(),
      rel: Default::default(),
      services: Vec::new(),
      rest: BTreeMap::new(),
    }
  }

  /// Extracts the model from a document's JSON form.
  pub fn from_json(doc: &Value) -> Self {
    let mut m = ModelDoc::empty(doc.get("id").and_then(Value::as_str).unwrap_or(""));
    if let Some(obj) = doc.as_object() {
      for (k, v) in obj {
        match k.as_str() {
          "id" => {}
          "verificationMethod" => m.vm = v.as_array().cloned().unwrap_or_default(),
          "service" => m.services = v.as_array().cloned().unwrap_or_default(),
          other => {
            if let Some(i) = RELS.iter().position(|r| *r == other) {
              m.rel[i] = v
                .as_array()
                .map(|a| {
                  a.iter()
                    .map(|e| match e {
                      Value::String(s) => MRef::Refer(s.clone()),
                      obj => MRef::Embed(obj.clone()),
                    })
                    .collect()
                })
                .unwrap_or_default();
            } else {
              m.rest.insert(k.clone(), v.clone());
            }
          }
        }
      }
    }
    m
  }

  pub fn to_json(&self) -> Value {
    let mut obj = serde_json::Map::new();
    obj.insert("id".to_owned(), Value::String(self.id.clone()));
    for (k, v) in &self.rest {
      obj.insert(k.clone(), v.clone());
    }
    if !self.vm.is_empty() {
      obj.insert("verificationMethod".to_owned(), Value::Array(self.vm.clone()));
    }
    for (i, r) in RELS.iter().enumerate() {
      if !self.rel[i].is_empty() {
        obj.insert(
          (*r).to_owned(),
          Value::Array(
            self.rel[i]
              .iter()
              .map(|e| match e {
                MRef::Embed(v) => v.clone(),
                MRef::Refer(s) => Value::String(s.clone()),
              })
              .collect(),
          ),
        );
      }
    }
    if !self.services.is_empty() {
      obj.insert("service".to_owned(), Value::Array(self.services.clone()));
    }
    Value::Object(obj)
  }

  // ---- invariants of the property statement (I4.1), recomputed from the entries ----

  pub fn id_invariant_breaches(&self) -> Vec<String> {
    let mut out = Vec::new();
    let mut embedded: BTreeMap<&str, usize> = BTreeMap::new();
    for v in &self.vm {
      *embedded.entry(vid(v)).or_insert(0) += 1;
    }
    let mut rel_embedded: BTreeSet<&str> = BTreeSet::new();
    for r in &self.rel {
      for e in r {
        if let MRef::Embed(v) = e {
          *embedded.entry(vid(v)).or_insert(0) += 1;
          rel_embedded.insert(vid(v));
        }
      }
    }
    for (id, n) in &embedded {
      if *n > 1 {
        out.push(format!("two-embedded-methods-share-id:{id}"));
      }
    }
    for r in &self.rel {
      let mut keys: BTreeSet<&str> = BTreeSet::new();
      for e in r {
        if !keys.insert(e.id()) {
          out.push(format!("duplicate-entry-in-relationship:{}", e.id()));
        }
        if let MRef::Refer(s) = e {
          if rel_embedded.contains(s.as_str()) {
            out.push(format!("reference-aliases-embedded-method:{s}"));
          }
        }
      }
    }
    let mut method_ids: BTreeSet<&str> = embedded.keys().copied().collect();
    for r in &self.rel {
      for e in r {
        method_ids.insert(e.id());
      }
    }
    let mut sids: BTreeSet<&str> = BTreeSet::new();
    for s in &self.services {
      if method_ids.contains(vid(s)) {
        out.push(format!("service-id-equals-method-id:{}", vid(s)));
      }
      if !sids.insert(vid(s)) {
        out.push(format!("duplicate-service-id:{}", vid(s)));
      }
    }
    out
  }

  // ---- mutators (documented semantics; stricter where the property is stricter, see DESIGN E.2) ----

  fn any_method_entry_with_id(&self, id: &str) -> bool {
    self.vm.iter().any(|v| vid(v) == id) || self.rel.iter().any(|r| r.iter().any(|e| e.id() == id))
  }

  /// `insert_method`: refused when the id is used by a method, a service, or (for relationship scopes) by any
  /// relationship entry, or (for the general-purpose scope) by an embedded relationship method.
  pub fn insert_method(&mut self, method: &Value, scope: Scope) -> Result<(), Refusal> {
    let id = vid(method);
    if self.services.iter().any(|s| vid(s) == id) {
      return Err(Refusal::Refused);
    }
    if self.vm.iter().any(|v| vid(v) == id) {
      return Err(Refusal::Refused);
    }
    let embedded_in_rel = self
      .rel
      .iter()
      .any(|r| r.iter().any(|e| matches!(e, MRef::Embed(v) if vid(v) == id)));
    if embedded_in_rel {
      return Err(Refusal::Refused);
    }
    match scope {
      None => {
        // a (dangling) reference to this id becomes resolvable: allowed
        self.vm.push(method.clone());
      }
      Some(i) => {
        if self.rel.iter().any(|r| r.iter().any(|e| e.id() == id)) {
          return Err(Refusal::Refused);
        }
        self.rel[i].push(MRef::Embed(method.clone()));
      }
    }
    Ok(())
  }

  /// `remove_method`: strips every relationship entry with that id (embedded or reference, also dangling ones) and
  /// the general-purpose method; returns the removed method with its scope if one was found.
  pub fn remove_method(&mut self, id: &str) -> Option<(Value, Scope)> {
    let mut found: Option<(Value, Scope)> = None;
    for (i, r) in self.rel.iter_mut().enumerate() {
      if let Some(pos) = r.iter().position(|e| e.id() == id) {
        let e = r.remove(pos);
        if let (MRef::Embed(v), None) = (e, &found) {
          found = Some((v, Some(i)));
        }
      }
    }
    if found.is_some() {
      return found;
    }
    if let Some(pos) = self.vm.iter().position(|v| vid(v) == id) {
      return Some((self.vm.remove(pos), None));
    }
    None
  }

  fn resolve_general(&self, query: &str) -> Option<&Value> {
    self.vm.iter().find(|v| query_matches(query, vid(v)))
  }

  /// attach: Err when no general-purpose method matches; Ok(true) when a reference was added.
  pub fn attach(&mut self, query: &str, rel: usize) -> Result<bool, Refusal> {
    let Some(m) = self.resolve_general(query) else {
      return Err(Refusal::Refused);
    };
    let id = vid(m).to_owned();
    if self.rel[rel].iter().any(|e| e.id() == id) {
      return Ok(false);
    }
    self.rel[rel].push(MRef::Refer(id));
    Ok(true)
  }

  pub fn detach(&mut self, query: &str, rel: usize) -> Result<bool, Refusal> {
    let Some(m) = self.resolve_general(query) else {
      return Err(Refusal::Refused);
    };
    let id = vid(m).to_owned();
    match self.rel[rel].iter().position(|e| e.id() == id) {
      Some(p) => {
        self.rel[rel].remove(p);
        Ok(true)
      }
      None => Ok(false),
    }
  }

  pub fn insert_service(&mut self, service: &Value) -> Result<(), Refusal> {
    let id = vid(service);
    if self.any_method_entry_with_id(id) || self.services.iter().any(|s| vid(s) == id) {
      return Err(Refusal::Refused);
    }
    self.services.push(service.clone());
    Ok(())
  }

  pub fn remove_service(&mut self, id: &str) -> Option<Value> {
    self
      .services
      .iter()
      .position(|s| vid(s) == id)
      .map(|p| self.services.remove(p))
  }

  // ---- queries ----

  fn resolve_ref<'a>(&'a self, e: &'a MRef) -> Option<&'a Value> {
    match e {
      MRef::Embed(v) => Some(v),
      MRef::Refer(id) => self.vm.iter().find(|v| vid(v) == id),
    }
  }

  /// All admissible answers to `resolve_method(query, scope)` as method JSON values; `None` among them means "not
  /// found" is admissible. Exactly one candidate when the query is unambiguous (DESIGN E.2).
  pub fn resolve_method_candidates(&self, query: &str, scope: Option<Scope>) -> Vec<Option<&Value>> {
    let mut out: Vec<Option<&Value>> = Vec::new();
    fn push<'a>(c: Option<&'a Value>, out: &mut Vec<Option<&'a Value>>) {
      let dup = out.iter().any(|o| match (o, &c) {
        (None, None) => true,
        (Some(a), Some(b)) => vid(a) == vid(b),
        _ => false,
      });
      if !dup {
        out.push(c);
      }
    }
    match scope {
      Some(None) => {
        for v in self.vm.iter().filter(|v| query_matches(query, vid(v))) {
          push(Some(v), &mut out);
        }
      }
      Some(Some(i)) => {
        for e in self.rel[i].iter().filter(|e| query_matches(query, e.id())) {
          push(self.resolve_ref(e), &mut out);
        }
      }
      None => {
        for r in &self.rel {
          for e in r.iter().filter(|e| query_matches(query, e.id())) {
            push(self.resolve_ref(e), &mut out);
          }
        }
        for v in self.vm.iter().filter(|v| query_matches(query, vid(v))) {
          push(Some(v), &mut out);
        }
      }
    }
    if out.is_empty() {
      out.push(None);
    }
    out
  }

  pub fn resolve_service_candidates(&self, query: &str) -> Vec<Option<&Value>> {
    let mut out: Vec<Option<&Value>> = self
      .services
      .iter()
      .filter(|s| query_matches(query, vid(s)))
      .map(Some)
      .collect();
    if out.is_empty() {
      out.push(None);
    }
    out
  }

  /// `methods(scope)`: ids, sorted.
  pub fn methods(&self, scope: Option<Scope>) -> Vec<String> {
    let mut out: Vec<String> = match scope {
      None => self
        .vm
        .iter()
        .map(|v| vid(v).to_owned())
        .chain(self.rel.iter().flat_map(|r| {
          r.iter().filter_map(|e| match e {
            MRef::Embed(v) => Some(vid(v).to_owned()),
            _ => None,
          })
        }))
        .collect(),
      Some(None) => self.vm.iter().map(|v| vid(v).to_owned()).collect(),
      Some(Some(i)) => self.rel[i]
        .iter()
        .filter_map(|e| self.resolve_ref(e))
        .map(|v| vid(v).to_owned())
        .collect(),
    };
    out.sort();
    out
  }

  /// Order-insensitive canonical form used to compare documents where the property does not speak about order.
  pub fn canonical(&self) -> Value {
    let mut vm: Vec<String> = self.vm.iter().map(|v| v.to_string()).collect();
    vm.sort();
    let rel: Vec<Vec<String>> = self
      .rel
      .iter()
      .map(|r| {
        let mut x: Vec<String> = r
          .iter()
          .map(|e| match e {
            MRef::Embed(v) => format!("E{v}"),
            MRef::Refer(s) => format!("R{s}"),
          })
          .collect();
        x.sort();
        x
      })
      .collect();
    let mut services: Vec<String> = self.services.iter().map(|v| v.to_string()).collect();
    services.sort();
    serde_json::json!({"id": self.id, "vm": vm, "rel": rel, "services": services, "rest": self.rest})
  }

  /// Human-readable difference between two canonical forms (first differing component).
  pub fn diff(&self, other: &ModelDoc) -> String {
    let a = self.canonical();
    let b = other.canonical();
    for k in ["id", "vm", "rel", "services", "rest"] {
      if a[k] != b[k] {
        return format!("{k}: {} vs {}", a[k], b[k]);
      }
    }
    if self != other {
      return format!("same entries in a different order: {} vs {}", self.to_json(), other.to_json());
    }
    "equal".to_owned()
  }
}

