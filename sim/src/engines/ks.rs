//! `ks` — key-store concurrency simulator (C15).
//!
//! Real code: `JwkMemStore`, `KeyIdMemstore` (with the cfg hooks: scheduling points before the lock and inside the
//! critical sections, seeded key ids and secrets), `tokio::sync::RwLock`, `MethodDigest`, `EdDSAJwsVerifier`.
//! Stubs: none. 2-16 client tasks run short scripts against ONE shared pair of stores under the seeded executor; every
//! invoke/return is stamped with a global event sequence number; at the end the history of every object (key id,
//! method digest) is checked for linearizability against a sequential model, and the cryptographic clauses of the
//! key-storage contract are checked directly.

use crate::core::batch::Engine;
use crate::core::batch::Params;
use crate::core::ctx;
use crate::core::exec::yield_now;
use crate::core::exec::Exec;
use crate::core::tape::Xo;
use identity_did::CoreDID;
use identity_jose::jwk::Jwk;
use identity_jose::jws::JwsAlgorithm;
use identity_storage::JwkMemStore;
use identity_storage::JwkStorage;
use identity_storage::KeyId;
use identity_storage::KeyIdMemstore;
use identity_storage::KeyIdStorage;
use identity_storage::KeyIdStorageErrorKind;
use identity_storage::KeyStorageErrorKind;
use identity_storage::KeyType;
use identity_storage::MethodDigest;
use identity_verification::VerificationMethod;
use sha2::Digest;
use std::cell::Cell;
use std::cell::RefCell;
use std::collections::BTreeMap;
use std::collections::HashSet;
use std::rc::Rc;

pub struct KsEngine;

// ------------------------------------------------------------------------------------------------------------------
// Seeded key material installed through the hooks
// ------------------------------------------------------------------------------------------------------------------

pub struct KeyGen {
  rng: Xo,
  counter: u64,
  /// when set, a secret is sometimes handed out again (a KMS with deterministic derivation): two methods may then
  /// carry the same key material
  pub repeat_secrets: bool,
  /// when set, the key-id seam declines and the store's own (production) id generation runs; ids then differ from
  /// one execution to the next and are written down under aliases (ctx::scrub)
  pub production_ids: bool,
  pub issued_ids: Vec<String>,
  pub issued_secrets: Vec<[u8; 32]>,
}

impl KeyGen {
  pub fn new(seed: u64) -> Self {
    KeyGen {
      rng: Xo::new(seed),
      counter: 0,
      repeat_secrets: false,
      production_ids: false,
      issued_ids: Vec::new(),
      issued_secrets: Vec::new(),
    }
  }
  pub fn key_id(&mut self) -> String {
    const ALNUM: &[u8] = b"ABCDEFGHIJKLMNOPQRSTUVWXYZabcdefghijklmnopqrstuvwxyz0123456789";
    self.counter += 1;
    // 8 characters of counter (uniqueness within the run) + 24 pseudo-random alphanumerics
    let mut s = format!("k{:07}", self.counter);
    while s.len() < 32 {
      let r = self.rng.next();
      s.push(ALNUM[(r % ALNUM.len() as u64) as usize] as char);
    }
    self.issued_ids.push(s.clone());
    s
  }
  pub fn secret(&mut self) -> [u8; 32] {
    if self.repeat_secrets && !self.issued_secrets.is_empty() && self.rng.next() % 5 == 0 {
      let again = *self.issued_secrets.last().unwrap();
      self.issued_secrets.push(again);
      return again;
    }
    let mut out = [0u8; 32];
    for chunk in out.chunks_mut(8) {
      chunk.copy_from_slice(&self.rng.next().to_le_bytes());
    }
    self.issued_secrets.push(out);
    out
  }
}

thread_local! {
  static HOOK_YIELDS: Cell<bool> = const { Cell::new(true) };
}

/// Enables/disables yields at the storage hooks (oracle-side observer reads must not consume the tape).
pub fn set_hook_yields(on: bool) {
  HOOK_YIELDS.with(|c| c.set(on));
}

/// Installs the storage hooks for this thread: yields decided by the tape with probability `yield_num/yield_den`,
/// key ids and secrets from `keygen`.
pub fn install_hooks(keygen: Rc<RefCell<KeyGen>>, yield_num: u32, yield_den: u32) {
  let kg1 = keygen.clone();
  let kg2 = keygen;
  identity_storage::verif_hooks::install(identity_storage::verif_hooks::Hooks {
    should_yield: Box::new(move |label| {
      if !ctx::active() || !HOOK_YIELDS.with(|c| c.get()) {
        return false;
      }
      let y = ctx::chance(yield_num, yield_den);
      if y {
        ctx::stat("fault.sched.yield_at_hook");
        ctx::sched(label, 1);
      }
      y
    }),
    next_key_id: Box::new(move || {
      let mut kg = kg1.borrow_mut();
      if kg.production_ids {
        None
      } else {
        Some(kg.key_id())
      }
    }),
    next_secret: Box::new(move || Some(kg2.borrow_mut().secret())),
  });
}

pub fn uninstall_hooks() {
  identity_storage::verif_hooks::uninstall();
}

// ------------------------------------------------------------------------------------------------------------------
// Independent helpers (not shared with the library)
// ------------------------------------------------------------------------------------------------------------------

pub fn b64(bytes: &[u8]) -> String {
  crate::core::b64::encode(bytes)
}

/// RFC 7638 thumbprint of an OKP key, computed by the harness.
pub fn okp_thumbprint(crv: &str, x: &str) -> String {
  let input = format!(r#"{{"crv":"{crv}","kty":"OKP","x":"{x}"}}"#);
  b64(&sha2::Sha256::digest(input.as_bytes()))
}

pub fn ed25519_public_x(seed: &[u8; 32]) -> String {
  let sk = crypto::signatures::ed25519::SecretKey::from_bytes(seed);
  b64(sk.public_key().as_ref())
}

fn jwk_from_json(v: serde_json::Value) -> Jwk {
  serde_json::from_value(v).expect("harness JWK deserialises")
}

/// The name of the BBS+ ciphersuite that `alg` does NOT name.
fn other_bbs_suite(alg: Option<&str>) -> String {
  use jsonprooftoken::jpa::algs::ProofAlgorithm;
  if alg == Some(ProofAlgorithm::BLS12381_SHAKE256.to_string().as_str()) {
    ProofAlgorithm::BLS12381_SHA256.to_string()
  } else {
    ProofAlgorithm::BLS12381_SHAKE256.to_string()
  }
}

/// BBS+ verification by the harness, with the ciphersuite the key's own public JWK names in `alg` (SHA-256 or
/// SHAKE-256): zkryptium directly, own base64url decoding of the coordinates.
fn bbs_verify(public_jwk: &Jwk, messages: &[Vec<u8>], header: &[u8], sig: &[u8]) -> bool {
  use zkryptium::bbsplus::ciphersuites::Bls12381Sha256;
  use zkryptium::bbsplus::ciphersuites::Bls12381Shake256;
  use zkryptium::bbsplus::keys::BBSplusPublicKey;
  use zkryptium::schemes::algorithms::BBSplus;
  use zkryptium::schemes::generics::Signature;
  let v = serde_json::to_value(public_jwk).unwrap_or_default();
  if v.get("alg").and_then(|a| a.as_str()) == Some(jsonprooftoken::jpa::algs::ProofAlgorithm::BLS12381_SHAKE256.to_string().as_str()) {
    let coord = |n: &str| -> Option<[u8; 96]> {
      v.get(n).and_then(|x| x.as_str()).and_then(crate::engines::world::b64url_decode).and_then(|b| <[u8; 96]>::try_from(b.as_slice()).ok())
    };
    let (Some(x), Some(y)) = (coord("x"), coord("y")) else { return false };
    let Ok(pk) = BBSplusPublicKey::from_coordinates(&x, &y) else { return false };
    let Ok(sig80) = <[u8; 80]>::try_from(sig) else { return false };
    let Ok(signature) = Signature::<BBSplus<Bls12381Shake256>>::from_bytes(&sig80) else { return false };
    return signature.verify(&pk, Some(messages), Some(header)).is_ok();
  }
  let coord = |n: &str| -> Option<[u8; 96]> {
    v.get(n).and_then(|x| x.as_str()).and_then(crate::engines::world::b64url_decode).and_then(|b| <[u8; 96]>::try_from(b.as_slice()).ok())
  };
  let (Some(x), Some(y)) = (coord("x"), coord("y")) else { return false };
  let Ok(pk) = BBSplusPublicKey::from_coordinates(&x, &y) else { return false };
  let Ok(sig80) = <[u8; 80]>::try_from(sig) else { return false };
  let Ok(signature) = Signature::<BBSplus<Bls12381Sha256>>::from_bytes(&sig80) else { return false };
  signature.verify(&pk, Some(messages), Some(header)).is_ok()
}

/// Ed25519 verification by the harness (iota-crypto directly, own strict base64url), not through the library's verifier.
pub fn verify_ed25519(public_jwk: &Jwk, data: &[u8], sig: &[u8]) -> bool {
  let x = serde_json::to_value(public_jwk).ok().and_then(|v| v.get("x").and_then(|x| x.as_str().map(str::to_owned)));
  let Some(pk_bytes) = x.and_then(|x| crate::engines::world::b64url_decode(&x)) else { return false };
  let (Ok(pk_arr), Ok(sig_arr)) = (<[u8; 32]>::try_from(pk_bytes.as_slice()), <[u8; 64]>::try_from(sig)) else { return false };
  let Ok(pk) = crypto::signatures::ed25519::PublicKey::try_from_bytes(pk_arr) else { return false };
  pk.verify(&crypto::signatures::ed25519::Signature::from_bytes(sig_arr), data)
}

// ------------------------------------------------------------------------------------------------------------------
// Operations and history
// ------------------------------------------------------------------------------------------------------------------

#[derive(Clone, Debug)]
enum InsertKind {
  Valid,
  PublicOnly,
  NoAlg,
  WrongAlg,
  EcKey,
  X25519,
  /// a private key of the store's other key type (BLS12381G2) carrying a JWS algorithm it cannot be used with
  BlsKeyWithJwsAlg,
  /// the declared key type (`kty`) is not OKP although the members are those of an Ed25519 key
  KtyDisagreesWithMembers,
  /// `x` is the public key of ANOTHER secret than `d`: signatures made with `d` could not verify under this JWK's
  /// public part (and would verify under another key's)
  PublicDoesNotBelongToPrivate,
}

#[derive(Clone, Debug)]
enum PkKind {
  Right,
  OtherKeysPublic,
  NoAlg,
  WrongAlg,
  WrongCrv,
}

#[derive(Clone, Debug)]
enum Op {
  Generate { key_type: &'static str, alg: JwsAlgorithm },
  Insert(InsertKind),
  Sign { slot: usize, pk: PkKind },
  Delete { slot: usize },
  Exists { slot: usize },
  InsertKeyId { digest: usize, slot: usize },
  GetKeyId { digest: usize },
  DeleteKeyId { digest: usize },
  /// the store's other key family: a BBS+ (BLS12381G2) key generated through `JwkStorageBbsPlusExt`
  GenerateBbs,
  /// `sign` (the EdDSA entry point) for the key id of a BBS+ key, with the public JWK of an Ed25519 key
  SignWithBbsKeyId,
  /// `sign_bbs` for a BBS+ key id, with that key's public JWK or the public JWK of ANOTHER stored BBS+ key
  SignBbs { other_public: bool },
}

#[derive(Clone, Debug)]
enum Ret {
  Created(String),
  Refused,
  Signed,
  SignRefusedForPk,
  Ok,
  Err(String),
  Bool(bool),
  Got(String),
}

#[derive(Clone, Debug)]
struct Event {
  client: usize,
  inv: u64,
  ret: u64,
  /// object: "key:<id>" or "digest:<n>"; None for operations bound to no object (refused generate/insert)
  object: Option<String>,
  kind: &'static str,
  arg: String,
  result: Ret,
}

struct Shared {
  jwk: JwkMemStore,
  kid: KeyIdMemstore,
  seq: Cell<u64>,
  /// key ids that became known to clients (results of generate/insert), in publication order
  pool: RefCell<Vec<String>>,
  /// public JWK per key id ever stored (from generate output or harness-side knowledge of inserted keys)
  publics: RefCell<BTreeMap<String, Jwk>>,
  events: RefCell<Vec<Event>>,
  digests: Vec<MethodDigest>,
  signatures: RefCell<Vec<(String, Vec<u8>, Vec<u8>)>>,
  harness_keygen: RefCell<Xo>,
  /// private JWK and public x of the last valid insert
  last_inserted: RefCell<Option<(serde_json::Value, String)>>,
  /// key ids come from the store's own generator in this run (not from the seam)
  production_ids: bool,
  aliases: RefCell<BTreeMap<String, String>>,
  /// key ids of BBS+ keys in the store
  bbs_pool: RefCell<Vec<String>>,
  bbs_publics: RefCell<BTreeMap<String, Jwk>>,
}

impl Shared {
  /// A key id produced by production code is not decided by the tape: write it down under an alias.
  fn alias(&self, id: &str) {
    if !self.production_ids {
      return;
    }
    let mut a = self.aliases.borrow_mut();
    if a.contains_key(id) {
      return;
    }
    let alias = format!("K{:03}", a.len() + 1);
    ctx::scrub(id, alias.clone());
    if id.len() > 1 {
      ctx::scrub(&id[..id.len() - 1], format!("{alias}~"));
    }
    a.insert(id.to_owned(), alias);
  }
  fn alias_always(&self, id: &str) {
    let mut a = self.aliases.borrow_mut();
    if a.contains_key(id) {
      return;
    }
    let alias = format!("B{:03}", a.len() + 1);
    ctx::scrub(id, alias.clone());
    a.insert(id.to_owned(), alias);
  }
  fn tick(&self) -> u64 {
    let v = self.seq.get() + 1;
    self.seq.set(v);
    v
  }
  /// slot % 100 selects a published key id (or a never-issued one); slot / 100 selects a variant of it that was
  /// never issued although it resembles an issued id: 1 = the id with a suffix, 2 = the id without its last character.
  fn key_for_slot(&self, slot: usize) -> String {
    let pool = self.pool.borrow();
    let (base, variant) = (slot % 100, slot / 100);
    if base < pool.len() {
      match variant {
        1 => format!("{}-v2", pool[base]),
        2 => pool[base][..pool[base].len() - 1].to_owned(),
        _ => pool[base].clone(),
      }
    } else {
      format!("neverissued{:021}", base)
    }
  }
}

fn harness_private_jwk(rng: &mut Xo) -> (serde_json::Value, String) {
  let mut seed = [0u8; 32];
  for chunk in seed.chunks_mut(8) {
    chunk.copy_from_slice(&rng.next().to_le_bytes());
  }
  let x = ed25519_public_x(&seed);
  (
    serde_json::json!({"kty":"OKP","crv":"Ed25519","x": x, "d": b64(&seed), "alg":"EdDSA"}),
    x,
  )
}

async fn run_op(sh: &Shared, client: usize, op: Op) {
  let inv = sh.tick();
  let mut object: Option<String> = None;
  let kind: &'static str;
  let mut arg = String::new();
  let result: Ret;
  match op {
    Op::Generate { key_type, alg } => {
      kind = "generate";
      arg = format!("{key_type}/{alg}");
      let should_succeed = key_type == "Ed25519" && alg == JwsAlgorithm::EdDSA;
      match sh.jwk.generate(KeyType::new(key_type), alg).await {
        Ok(out) => {
          let id = out.key_id.as_str().to_owned();
          sh.alias(&id);
          object = Some(format!("key:{id}"));
          // contract clauses on the output
          let jwk = &out.jwk;
          let v = serde_json::to_value(jwk).unwrap_or_default();
          if !should_succeed {
            ctx::violation(
              "C15",
              "C15.generate_requires_compatible_alg",
              format!("generate/{arg}/accepted"),
              format!("generate({arg}) succeeded"),
            );
          }
          if v.get("d").is_some() || !jwk.is_public() {
            ctx::violation(
              "C15",
              "C15.generate_public_only",
              "generate/private-member-returned",
              format!("generate returned a JWK with private members: {v}"),
            );
          }
          let x = v.get("x").and_then(|x| x.as_str()).unwrap_or("").to_owned();
          let want_kid = okp_thumbprint("Ed25519", &x);
          if v.get("kid").and_then(|k| k.as_str()) != Some(want_kid.as_str()) {
            ctx::violation(
              "C15",
              "C15.generate_kid_is_thumbprint",
              "generate/kid-not-thumbprint",
              format!("kid {:?} but RFC 7638 thumbprint is {want_kid}", v.get("kid")),
            );
          }
          if v.get("alg").and_then(|k| k.as_str()) != Some(alg.name()) {
            ctx::violation(
              "C15",
              "C15.generate_alg_as_requested",
              "generate/wrong-alg",
              format!("alg {:?} but {} was requested", v.get("alg"), alg.name()),
            );
          }
          if sh.publics.borrow().contains_key(&id) {
            ctx::violation(
              "C15",
              "C15.generate_fresh_key_id",
              "generate/key-id-reused",
              format!("generate returned key id {id} which was issued before"),
            );
          }
          sh.publics.borrow_mut().insert(id.clone(), jwk.clone());
          sh.pool.borrow_mut().push(id.clone());
          result = Ret::Created(id);
        }
        Err(e) => {
          if should_succeed {
            ctx::violation(
              "C15",
              "C15.generate_succeeds",
              "generate/refused",
              format!("generate(Ed25519, EdDSA) failed: {e}"),
            );
          }
          result = Ret::Refused;
        }
      }
    }
    Op::Insert(k) => {
      kind = "insert";
      arg = format!("{k:?}");
      // a valid insert is a new key or, one time in four, the key material of the previous valid insert again (the
      // same key then lives under two key ids, each with a life of its own)
      let reuse = matches!(k, InsertKind::Valid) && ctx::choose(4) == 0;
      let previous = sh.last_inserted.borrow().clone();
      let (mut priv_json, x) = match (reuse, previous) {
        (true, Some(p)) => {
          ctx::stat("probe.same_key_material_inserted_again");
          p
        }
        _ => harness_private_jwk(&mut sh.harness_keygen.borrow_mut()),
      };
      if matches!(k, InsertKind::Valid) {
        *sh.last_inserted.borrow_mut() = Some((priv_json.clone(), x.clone()));
      }
      let public = jwk_from_json(serde_json::json!({"kty":"OKP","crv":"Ed25519","x": x, "alg":"EdDSA"}));
      let valid = matches!(k, InsertKind::Valid);
      match k {
        InsertKind::Valid => {}
        InsertKind::PublicOnly => {
          priv_json.as_object_mut().unwrap().remove("d");
        }
        InsertKind::NoAlg => {
          priv_json.as_object_mut().unwrap().remove("alg");
        }
        InsertKind::WrongAlg => {
          priv_json["alg"] = "ES256".into();
        }
        InsertKind::EcKey => {
          priv_json = serde_json::json!({"kty":"EC","crv":"P-256","alg":"ES256",
            "x":"f83OJ3D2xF1Bg8vub9tLe1gHMzV76e8Tus9uPHvRVEU","y":"x_FEzRu9m36HLN_tue659LNpXW6pCyStikYjKIWI5a0",
            "d":"jpsQnnGQmL-YBIffH1136cspYG6-0iY7X1fCE9-E9LI"});
        }
        InsertKind::X25519 => {
          priv_json["crv"] = "X25519".into();
        }
        InsertKind::PublicDoesNotBelongToPrivate => {
          let (_, other_x) = harness_private_jwk(&mut sh.harness_keygen.borrow_mut());
          // (sometimes in a spelling that a strict base64url decoder refuses: still not the public key of `d`)
          priv_json["x"] = if ctx::choose(3) == 0 { format!("{other_x}=") } else { other_x }.into();
        }
        InsertKind::KtyDisagreesWithMembers => {
          priv_json["kty"] = ["RSA", "EC", "oct"][ctx::choose(3)].into();
        }
        InsertKind::BlsKeyWithJwsAlg => {
          let jws_alg = ["EdDSA", "ES256"][ctx::choose(2)];
          priv_json = serde_json::json!({"kty":"EC","crv":"BLS12381G2","alg": jws_alg,
            "x": b64(&[3u8; 48]), "y": b64(&[4u8; 48]), "d": b64(&[5u8; 32])});
        }
      }
      let jwk = jwk_from_json(priv_json);
      match sh.jwk.insert(jwk).await {
        Ok(id) => {
          let id = id.as_str().to_owned();
          sh.alias(&id);
          object = Some(format!("key:{id}"));
          if !valid {
            ctx::violation(
              "C15",
              "C15.insert_requires_private_compatible_jwk",
              format!("insert/{arg}/accepted"),
              format!("insert of an unacceptable JWK ({arg}) succeeded with key id {id}"),
            );
          }
          if sh.publics.borrow().contains_key(&id) {
            ctx::violation(
              "C15",
              "C15.generate_fresh_key_id",
              "insert/key-id-reused",
              format!("insert returned key id {id} which was issued before"),
            );
          }
          if valid {
            sh.publics.borrow_mut().insert(id.clone(), public);
            sh.pool.borrow_mut().push(id.clone());
          }
          result = Ret::Created(id);
        }
        Err(e) => {
          if valid {
            ctx::violation(
              "C15",
              "C15.insert_accepts_valid",
              "insert/valid-refused",
              format!("insert of a fully private Ed25519/EdDSA JWK failed: {e}"),
            );
          }
          result = Ret::Refused;
        }
      }
    }
    Op::Sign { slot, pk } => {
      kind = "sign";
      let id = sh.key_for_slot(slot);
      object = Some(format!("key:{id}"));
      let own_public = sh.publics.borrow().get(&id).cloned();
      let fallback = jwk_from_json(
        serde_json::json!({"kty":"OKP","crv":"Ed25519","x":"11qYAYKxCrfVS_7TyWQHOg7hcvPapiMlrwIaaPcHURo","alg":"EdDSA"}),
      );
      let mut pk_acceptable = true;
      let public_arg: Jwk = match pk {
        PkKind::Right => own_public.clone().unwrap_or(fallback),
        PkKind::OtherKeysPublic => {
          let publics = sh.publics.borrow();
          publics
            .iter()
            .find(|(k, _)| **k != id)
            .map(|(_, v)| v.clone())
            .unwrap_or(fallback)
        }
        PkKind::NoAlg => {
          pk_acceptable = false;
          jwk_from_json(serde_json::json!({"kty":"OKP","crv":"Ed25519","x":"11qYAYKxCrfVS_7TyWQHOg7hcvPapiMlrwIaaPcHURo"}))
        }
        PkKind::WrongAlg => {
          pk_acceptable = false;
          jwk_from_json(
            serde_json::json!({"kty":"OKP","crv":"Ed25519","x":"11qYAYKxCrfVS_7TyWQHOg7hcvPapiMlrwIaaPcHURo","alg":"ES256"}),
          )
        }
        PkKind::WrongCrv => {
          pk_acceptable = false;
          jwk_from_json(
            serde_json::json!({"kty":"OKP","crv":"X25519","x":"11qYAYKxCrfVS_7TyWQHOg7hcvPapiMlrwIaaPcHURo","alg":"EdDSA"}),
          )
        }
      };
      arg = format!("{id}/{pk:?}");
      let data: Vec<u8> = format!("msg-{client}-{inv}").into_bytes();
      match sh.jwk.sign(&KeyId::new(id.clone()), &data, &public_arg).await {
        Ok(sig) => {
          if !pk_acceptable {
            ctx::violation(
              "C15",
              "C15.sign_respects_public_key_requirements",
              format!("sign/{pk:?}/accepted"),
              format!("sign with an unacceptable public key argument ({pk:?}) succeeded"),
            );
          }
          sh.signatures.borrow_mut().push((id.clone(), data, sig));
          result = Ret::Signed;
        }
        Err(e) => {
          result = if pk_acceptable {
            Ret::Err(format!("{:?}", e.kind()))
          } else {
            Ret::SignRefusedForPk
          };
        }
      }
    }
    Op::Delete { slot } => {
      kind = "delete";
      let id = sh.key_for_slot(slot);
      object = Some(format!("key:{id}"));
      arg = id.clone();
      result = match sh.jwk.delete(&KeyId::new(id)).await {
        Ok(()) => Ret::Ok,
        Err(e) => {
          if !matches!(e.kind(), KeyStorageErrorKind::KeyNotFound) {
            ctx::violation(
              "C15",
              "C15.delete_missing_reports_key_not_found",
              "delete/wrong-error-kind",
              format!("delete failed with {:?} instead of KeyNotFound", e.kind()),
            );
          }
          Ret::Err(format!("{:?}", e.kind()))
        }
      };
    }
    Op::Exists { slot } => {
      kind = "exists";
      let id = sh.key_for_slot(slot);
      object = Some(format!("key:{id}"));
      arg = id.clone();
      result = match sh.jwk.exists(&KeyId::new(id)).await {
        Ok(b) => Ret::Bool(b),
        Err(e) => Ret::Err(format!("{:?}", e.kind())),
      };
    }
    Op::InsertKeyId { digest, slot } => {
      kind = "insert_key_id";
      let id = format!("{}#c{client}", sh.key_for_slot(slot));
      object = Some(format!("digest:{digest}"));
      arg = id.clone();
      result = match sh.kid.insert_key_id(sh.digests[digest].clone(), KeyId::new(id)).await {
        Ok(()) => Ret::Ok,
        Err(e) => {
          if !matches!(e.kind(), KeyIdStorageErrorKind::KeyIdAlreadyExists) {
            ctx::violation(
              "C15",
              "C15.second_insert_reports_already_exists",
              "insert_key_id/wrong-error-kind",
              format!("insert_key_id failed with {:?}", e.kind()),
            );
          }
          Ret::Err(format!("{:?}", e.kind()))
        }
      };
    }
    Op::GetKeyId { digest } => {
      kind = "get_key_id";
      object = Some(format!("digest:{digest}"));
      result = match sh.kid.get_key_id(&sh.digests[digest]).await {
        Ok(k) => Ret::Got(k.as_str().to_owned()),
        Err(e) => Ret::Err(format!("{:?}", e.kind())),
      };
    }
    Op::GenerateBbs => {
      kind = "generate_bbs";
      use identity_storage::JwkStorageBbsPlusExt;
      // (either ciphersuite; the harness verifies with the one the returned public JWK names)
      let suite = if ctx::choose(3) == 0 {
        ctx::stat("probe.bbs_key_for_shake256");
        jsonprooftoken::jpa::algs::ProofAlgorithm::BLS12381_SHAKE256
      } else {
        jsonprooftoken::jpa::algs::ProofAlgorithm::BLS12381_SHA256
      };
      result = match sh.jwk.generate_bbs(KeyType::new("BLS12381G2"), suite).await {
        Ok(out) => {
          let id = out.key_id.as_str().to_owned();
          // (this path has no key-id seam: the id always comes from production code)
          sh.alias_always(&id);
          if sh.publics.borrow().contains_key(&id) || sh.bbs_pool.borrow().contains(&id) {
            ctx::violation("C15", "C15.generate_fresh_key_id", "generate_bbs/key-id-reused", format!("generate_bbs returned key id {id} which was issued before"));
          }
          if out.jwk.alg() != Some(suite.to_string().as_str()) {
            ctx::violation("C15", "C15.generate_alg_as_requested", "generate_bbs/alg", format!("generate_bbs for {suite} returned a JWK with alg {:?}", out.jwk.alg()));
          }
          sh.bbs_pool.borrow_mut().push(id.clone());
          sh.bbs_publics.borrow_mut().insert(id.clone(), out.jwk.clone());
          ctx::stat("probe.bbs_key_generated");
          Ret::Created(id)
        }
        Err(e) => Ret::Err(format!("{:?}", e.kind())),
      };
    }
    Op::SignBbs { other_public } => {
      kind = "sign_bbs";
      use identity_storage::JwkStorageBbsPlusExt;
      let pool = sh.bbs_pool.borrow().clone();
      result = if pool.is_empty() {
        Ret::Refused
      } else {
        let id = pool[ctx::choose(pool.len())].clone();
        let own_pk = sh.bbs_publics.borrow().get(&id).cloned();
        let arg_id = if other_public && pool.len() > 1 { pool.iter().find(|o| **o != id).cloned().unwrap() } else { id.clone() };
        let mut arg_pk = sh.bbs_publics.borrow().get(&arg_id).cloned();
        // one call in four passes the key's public JWK with the OTHER BBS+ ciphersuite as `alg`: the key was generated
        // for BLS12381-SHA256, a signature for this key id must verify under the key's own public JWK (or be refused)
        let mut other_suite = false;
        if ctx::choose(4) == 0 {
          if let Some(pk) = &arg_pk {
            let mut j = serde_json::to_value(pk).unwrap_or_default();
            j["alg"] = other_bbs_suite(j.get("alg").and_then(|a| a.as_str())).into();
            if let Ok(changed) = serde_json::from_value::<Jwk>(j) {
              arg_pk = Some(changed);
              other_suite = true;
            }
          }
        }
        match (own_pk, arg_pk) {
          (Some(own_pk), Some(arg_pk)) => {
            arg = format!("{id} with the public key of {arg_id}");
            let data: Vec<Vec<u8>> = (0..1 + ctx::choose(3)).map(|_| ctx::bytes(8)).collect();
            let header = ctx::bytes(6);
            match sh.jwk.sign_bbs(&KeyId::new(id.clone()), &data, &header, &arg_pk).await {
              Ok(sig) => {
                ctx::stat("probe.sign_bbs_ok");
                // a signature made for a stored key id verifies under THAT key's public JWK, whatever the caller passed
                if !bbs_verify(&own_pk, &data, &header, &sig) {
                  ctx::violation(
                    "C15",
                    "C15.signature_verifies_under_own_key",
                    if other_suite {
                      "sign_bbs/other-ciphersuite-named/does-not-verify-under-own-key"
                    } else if arg_id == id {
                      "sign_bbs/does-not-verify"
                    } else {
                      "sign_bbs/other-public-key-passed/does-not-verify-under-own-key"
                    },
                    format!("the BBS+ signature returned for key id {id} (public key argument: that of {arg_id}) does not verify under the public JWK of {id}"),
                  );
                } else if data.len() >= 2 && ctx::choose(2) == 0 {
                  // update_signature (validity timeframe update): two of the signed messages are replaced; the signature
                  // returned for this key id verifies over the new messages under the key's own public JWK, or the call
                  // is refused. The public JWK handed in is the key's own, one time in three with `alg` naming the
                  // other ciphersuite.
                  let (i_start, i_end) = (0usize, data.len() - 1);
                  // (both timeframe messages replaced, or only one of them: the other keeps its value)
                  let mut new_data = data.clone();
                  let which = ctx::choose(4);
                  if which != 1 {
                    new_data[i_start] = ctx::bytes(8);
                  }
                  if which != 2 {
                    new_data[i_end] = ctx::bytes(8);
                  }
                  let upd_ctx = identity_storage::ProofUpdateCtx {
                    old_start_validity_timeframe: data[i_start].clone(),
                    new_start_validity_timeframe: new_data[i_start].clone(),
                    old_end_validity_timeframe: data[i_end].clone(),
                    new_end_validity_timeframe: new_data[i_end].clone(),
                    index_start_validity_timeframe: i_start,
                    index_end_validity_timeframe: i_end,
                    number_of_signed_messages: data.len(),
                  };
                  let mut upd_pk = own_pk.clone();
                  let mut upd_other_suite = false;
                  if ctx::choose(3) == 0 {
                    let mut j = serde_json::to_value(&own_pk).unwrap_or_default();
                    j["alg"] = other_bbs_suite(j.get("alg").and_then(|a| a.as_str())).into();
                    if let Ok(changed) = serde_json::from_value::<Jwk>(j) {
                      upd_pk = changed;
                      upd_other_suite = true;
                    }
                  }
                  match sh.jwk.update_signature(&KeyId::new(id.clone()), &upd_pk, &sig, upd_ctx).await {
                    Ok(updated) => {
                      ctx::stat("probe.update_signature_ok");
                      if !bbs_verify(&own_pk, &new_data, &header, &updated) {
                        ctx::violation(
                          "C15",
                          "C15.signature_verifies_under_own_key",
                          if upd_other_suite { "update_signature/other-ciphersuite-named/does-not-verify-under-own-key" } else { "update_signature/does-not-verify" },
                          format!("the updated BBS+ signature returned for key id {id} does not verify over the updated messages under the public JWK of {id}"),
                        );
                      }
                    }
                    Err(e) => {
                      if !upd_other_suite {
                        ctx::violation(
                          "C15",
                          "C15.sign_succeeds",
                          "update_signature/refused",
                          format!("update_signature for the present key {id} with its own public JWK failed: {e}"),
                        );
                      }
                    }
                  }
                }
                Ret::Signed
              }
              Err(e) => Ret::Err(format!("{:?}", e.kind())),
            }
          }
          _ => Ret::Refused,
        }
      };
    }
    Op::SignWithBbsKeyId => {
      kind = "sign_with_bbs_key_id";
      let id = sh.bbs_pool.borrow().last().cloned();
      let pk = sh.publics.borrow().values().next().cloned();
      result = match (id, pk) {
        (Some(id), Some(pk)) => {
          arg = id.clone();
          use futures::FutureExt;
          let data = ctx::bytes(16);
          match std::panic::AssertUnwindSafe(sh.jwk.sign(&KeyId::new(id.clone()), &data, &pk)).catch_unwind().await {
            Ok(Ok(_)) => {
              ctx::violation(
                "C15",
                "C15.signature_verifies_under_own_key",
                "sign/bbs-key-id-with-ed25519-public-key/signed",
                format!("sign returned an EdDSA signature for the BBS+ key id {id}"),
              );
              Ret::Signed
            }
            Ok(Err(e)) => {
              ctx::stat("probe.sign_with_bbs_key_id_refused");
              Ret::Err(format!("{:?}", e.kind()))
            }
            Err(p) => {
              let msg = p.downcast_ref::<String>().cloned().or_else(|| p.downcast_ref::<&str>().map(|s| (*s).to_owned())).unwrap_or_default();
              ctx::violation(
                "C15",
                "C15.mismatched_public_key_is_an_error",
                "sign/bbs-key-id-with-ed25519-public-key/panic",
                format!("sign(key id of a BBS+ key, public JWK of an Ed25519 key) panicked instead of returning an error: {msg}"),
              );
              Ret::Err("panic".to_owned())
            }
          }
        }
        _ => Ret::Refused,
      };
    }
    Op::DeleteKeyId { digest } => {
      kind = "delete_key_id";
      object = Some(format!("digest:{digest}"));
      result = match sh.kid.delete_key_id(&sh.digests[digest]).await {
        Ok(()) => Ret::Ok,
        Err(e) => Ret::Err(format!("{:?}", e.kind())),
      };
    }
  }
  let ret = sh.tick();
  sh.events.borrow_mut().push(Event {
    client,
    inv,
    ret,
    object,
    kind,
    arg,
    result,
  });
}

// ------------------------------------------------------------------------------------------------------------------
// Linearizability per object (locality: a history is linearizable iff every per-object sub-history is)
// ------------------------------------------------------------------------------------------------------------------

#[derive(Clone, PartialEq, Eq, Hash, Debug)]
enum ObjState {
  Absent,
  Present,
  Mapped(String),
}

/// Sequential specification: applies `e` in `state`; None if the recorded result is impossible in that state.
fn apply(state: &ObjState, e: &Event) -> Option<ObjState> {
  use ObjState::*;
  match (e.kind, &e.result) {
    // ---- key objects ----
    ("generate", Ret::Created(_)) | ("insert", Ret::Created(_)) => match state {
      Absent => Some(Present),
      _ => None,
    },
    ("sign", Ret::Signed) => match state {
      Present => Some(Present),
      _ => None,
    },
    ("sign", Ret::Err(_)) => match state {
      Absent => Some(Absent),
      _ => None,
    },
    ("sign", Ret::SignRefusedForPk) => Some(state.clone()),
    ("delete", Ret::Ok) => match state {
      Present => Some(Absent),
      _ => None,
    },
    ("delete", Ret::Err(_)) => match state {
      Absent => Some(Absent),
      _ => None,
    },
    ("exists", Ret::Bool(b)) => match (state, b) {
      (Present, true) | (Absent, false) => Some(state.clone()),
      _ => None,
    },
    // ---- digest objects ----
    ("insert_key_id", Ret::Ok) => match state {
      Absent => Some(Mapped(e.arg.clone())),
      _ => None,
    },
    ("insert_key_id", Ret::Err(_)) => match state {
      Mapped(_) => Some(state.clone()),
      _ => None,
    },
    ("get_key_id", Ret::Got(k)) => match state {
      Mapped(m) if m == k => Some(state.clone()),
      _ => None,
    },
    ("get_key_id", Ret::Err(_)) => match state {
      Absent => Some(Absent),
      _ => None,
    },
    ("delete_key_id", Ret::Ok) => match state {
      Mapped(_) => Some(Absent),
      _ => None,
    },
    ("delete_key_id", Ret::Err(_)) => match state {
      Absent => Some(Absent),
      _ => None,
    },
    _ => None,
  }
}

/// Wing-Gong style search with memoisation on (remaining set, state). `events.len() <= 64`.
fn linearizable(events: &[&Event], budget: &mut u64) -> Option<bool> {
  fn go(
    events: &[&Event],
    remaining: u64,
    state: &ObjState,
    memo: &mut HashSet<(u64, ObjState)>,
    budget: &mut u64,
  ) -> Option<bool> {
    if remaining == 0 {
      return Some(true);
    }
    if !memo.insert((remaining, state.clone())) {
      return Some(false);
    }
    if *budget == 0 {
      return None;
    }
    *budget -= 1;
    // minimal operations: invoked before every remaining operation returned
    let mut min_ret = u64::MAX;
    for (i, e) in events.iter().enumerate() {
      if remaining & (1 << i) != 0 && e.ret < min_ret {
        min_ret = e.ret;
      }
    }
    for (i, e) in events.iter().enumerate() {
      if remaining & (1 << i) == 0 || e.inv > min_ret {
        continue;
      }
      if let Some(next) = apply(state, e) {
        match go(events, remaining & !(1 << i), &next, memo, budget) {
          Some(true) => return Some(true),
          None => return None,
          Some(false) => {}
        }
      }
    }
    Some(false)
  }
  if events.len() > 64 {
    return None;
  }
  let all: u64 = if events.len() == 64 { u64::MAX } else { (1u64 << events.len()) - 1 };
  let mut memo = HashSet::new();
  go(events, all, &ObjState::Absent, &mut memo, budget)
}

fn draw_slot(n_slots: usize) -> usize {
  let base = ctx::choose(n_slots);
  base + 100 * ctx::weighted(&[10, 1, 1])
}

fn gen_op(n_slots: usize, n_digests: usize, invalid_bias: u32) -> Op {
  // one operation in forty concerns the store's BBS+ keys
  if ctx::chance(1, 40) {
    return match ctx::choose(4) {
      0 | 1 => Op::GenerateBbs,
      2 => Op::SignWithBbsKeyId,
      _ => Op::SignBbs { other_public: ctx::choose(2) == 0 },
    };
  }
  match ctx::weighted(&[5, 3, 6, 4, 3, 5, 4, 3]) {
    0 => {
      if ctx::chance(invalid_bias, 10) {
        match ctx::choose(3) {
          0 => Op::Generate {
            key_type: "Ed25519",
            alg: JwsAlgorithm::ES256,
          },
          1 => Op::Generate {
            key_type: "BLS12381G2",
            alg: JwsAlgorithm::EdDSA,
          },
          _ => Op::Generate {
            key_type: "NoSuchKeyType",
            alg: JwsAlgorithm::EdDSA,
          },
        }
      } else {
        Op::Generate {
          key_type: "Ed25519",
          alg: JwsAlgorithm::EdDSA,
        }
      }
    }
    1 => {
      if ctx::chance(invalid_bias, 6) {
        Op::Insert(match ctx::choose(8) {
          7 => InsertKind::PublicDoesNotBelongToPrivate,
          6 => InsertKind::KtyDisagreesWithMembers,
          5 => InsertKind::BlsKeyWithJwsAlg,
          0 => InsertKind::PublicOnly,
          1 => InsertKind::NoAlg,
          2 => InsertKind::WrongAlg,
          3 => InsertKind::EcKey,
          _ => InsertKind::X25519,
        })
      } else {
        Op::Insert(InsertKind::Valid)
      }
    }
    2 => Op::Sign {
      slot: draw_slot(n_slots),
      pk: if ctx::chance(invalid_bias, 8) {
        match ctx::choose(4) {
          0 => PkKind::OtherKeysPublic,
          1 => PkKind::NoAlg,
          2 => PkKind::WrongAlg,
          _ => PkKind::WrongCrv,
        }
      } else {
        PkKind::Right
      },
    },
    3 => Op::Delete {
      slot: draw_slot(n_slots),
    },
    4 => Op::Exists {
      slot: draw_slot(n_slots),
    },
    5 => Op::InsertKeyId {
      digest: ctx::choose(n_digests),
      slot: ctx::choose(n_slots),
    },
    6 => Op::GetKeyId {
      digest: ctx::choose(n_digests),
    },
    _ => Op::DeleteKeyId {
      digest: ctx::choose(n_digests),
    },
  }
}

fn make_digests(n: usize) -> Vec<MethodDigest> {
  // Digests of methods that differ only in the fragment, or only in the key: they must stay distinct entries.
  let did = CoreDID::parse("did:sim:ks").unwrap();
  let mut combos: Vec<(String, u8)> = vec![("a".to_owned(), 1), ("a".to_owned(), 2), ("b".to_owned(), 1)];
  for i in 3..n {
    combos.push((format!("m{i}"), (i % 5) as u8 + 1));
  }
  let v: Vec<MethodDigest> = combos
    .iter()
    .take(n)
    .map(|(frag, key)| {
      let mut seed = [0u8; 32];
      seed[0] = *key;
      let jwk = jwk_from_json(serde_json::json!({"kty":"OKP","crv":"Ed25519","x": ed25519_public_x(&seed), "alg":"EdDSA"}));
      let m = VerificationMethod::new_from_jwk(did.clone(), jwk, Some(frag.as_str())).expect("method builds");
      MethodDigest::new(&m).expect("digest builds")
    })
    .collect();
  // pack / unpack is how a digest travels to persistent stores: it must be the identity
  for d in &v {
    match MethodDigest::unpack(d.pack()) {
      Ok(back) if &back == d => {}
      _ => ctx::violation("C15", "C15.one_key_id_per_digest", "digest/pack-unpack-not-identity", "MethodDigest::unpack(pack(d)) != d"),
    }
  }
  v
}

impl Engine for KsEngine {
  fn name(&self) -> &'static str {
    "ks"
  }
  fn rule(&self, _p: &str) -> String {
    "One run = 2-16 client tasks, each with a script of 1-4 operations (generate / insert valid or invalid JWK / sign \
     with right or unacceptable public key / delete / exists / insert_key_id / get_key_id / delete_key_id) over a small \
     shared pool of key ids and 1-3 method digests, against ONE shared JwkMemStore + KeyIdMemstore; one third of the \
     runs are the dedicated race scenario (N tasks insert the same digest with distinct key ids). The tape picks \
     the next runnable task at every step and decides at each hook (before lock acquisition, inside critical sections) \
     whether the task yields. Non-trivial: at least two operations on the same object (key id or digest) overlapped in \
     time; distinct = distinct hashes of (task pick sequence, hook yield vector)."
      .to_owned()
  }
  fn real_components(&self, _p: &str) -> Vec<&'static str> {
    vec![
      "identity_storage::JwkMemStore (generate, insert, sign, delete, exists)",
      "identity_storage::KeyIdMemstore (insert_key_id, get_key_id, delete_key_id)",
      "tokio::sync::RwLock (real lock, polled by the simulator's executor)",
      "identity_storage::MethodDigest, identity_eddsa_verifier::EdDSAJwsVerifier, iota-crypto Ed25519",
    ]
  }
  fn stub_components(&self, _p: &str) -> Vec<&'static str> {
    vec!["none (OS randomness replaced by seeded key ids / secrets through the cfg hooks)"]
  }
  fn assumptions(&self, _p: &str) -> Vec<String> {
    vec![
      "interleavings are decided at task granularity between await points: the hook yield points (before each lock acquisition, inside each critical section) plus the lock's own wait points; preemption inside a critical section between two non-awaiting statements cannot happen in a single-threaded executor and is covered only by the Miri thread tier".to_owned(),
      "error kinds are judged only where the trait documents them (KeyNotFound, KeyIdAlreadyExists)".to_owned(),
      "StrongholdStorage is exercised only sequentially and only in the thorough tier (its internals are outside the simulator)".to_owned(),
    ]
  }
  fn required_probes(&self, _p: &str, _tier: &str) -> Vec<String> {
    [
      "fault.sched.yield_at_hook",
      "probe.overlap_same_object",
      "probe.race_scenario",
      "probe.race_losers",
      "probe.sign_ok",
      "probe.sign_missing_key",
      "probe.delete_missing",
      "probe.insert_invalid_refused",
      "probe.generate_invalid_refused",
      "probe.lin_checked_objects",
    ]
    .iter()
    .map(|s| (*s).to_owned())
    .collect()
  }

  fn run(&self, prop: &str, params: &Params) {
    let max_clients = params.get("max_clients").copied().unwrap_or(16) as usize;
    // ---- configuration ----
    let race_mode = ctx::choose(3) == 2;
    // one run in fifty is a LONG history: few clients, scripts of 10-40 operations, tens of keys and digests
    // (thresholds, growth of the maps, the n-th repetition)
    let long = !race_mode && ctx::chance(1, 50);
    if long {
      ctx::stat("probe.long_history");
    }
    let n_clients = if long {
      2 + ctx::choose(3)
    } else {
      match ctx::weighted(&[4, 4, 3, 2, 1]) {
        0 => 2,
        1 => 3,
        2 => 4,
        3 => 5 + ctx::choose(4),
        _ => 9 + ctx::choose(8),
      }
    }
    .min(max_clients);
    let (yn, yd) = [(0u32, 1u32), (1, 8), (1, 3), (1, 2)][ctx::choose(4)];
    let n_slots = if long { 8 + ctx::choose(40) } else { 1 + ctx::choose(4) };
    let n_digests = if long { 1 + ctx::choose(24) } else { 1 + ctx::choose(3) };
    let invalid_bias = ctx::choose(4) as u32;
    let keygen_seed = ((ctx::draw_u32() as u64) << 32) | ctx::draw_u32() as u64;
    let keygen = Rc::new(RefCell::new(KeyGen::new(keygen_seed)));
    // one run in six leaves key-id generation to the store itself (production code instead of the seam)
    let production_ids = ctx::chance(1, 6);
    if production_ids {
      keygen.borrow_mut().production_ids = true;
      ctx::stat("probe.production_key_ids");
    }
    install_hooks(keygen.clone(), yn, yd);
    set_hook_yields(true);

    let sh = Shared {
      jwk: JwkMemStore::new(),
      kid: KeyIdMemstore::new(),
      seq: Cell::new(0),
      pool: RefCell::new(Vec::new()),
      publics: RefCell::new(BTreeMap::new()),
      events: RefCell::new(Vec::new()),
      digests: make_digests(n_digests),
      signatures: RefCell::new(Vec::new()),
      harness_keygen: RefCell::new(Xo::new(keygen_seed ^ 0xABCD)),
      last_inserted: RefCell::new(None),
      production_ids,
      aliases: RefCell::new(BTreeMap::new()),
      bbs_pool: RefCell::new(Vec::new()),
      bbs_publics: RefCell::new(BTreeMap::new()),
    };

    // ---- scripts ----
    let mut scripts: Vec<Vec<Op>> = Vec::new();
    if race_mode {
      ctx::stat("probe.race_scenario");
      for _ in 0..n_clients {
        scripts.push(vec![Op::InsertKeyId { digest: 0, slot: 0 }]);
      }
    } else {
      for _ in 0..n_clients {
        let len = if long { 10 + ctx::choose(30) } else { 1 + ctx::choose(4) };
        scripts.push((0..len).map(|_| gen_op(n_slots, n_digests, invalid_bias)).collect());
      }
    }
    ctx::trace(format!(
      "config race={race_mode} clients={n_clients} yield={yn}/{yd} slots={n_slots} digests={n_digests}"
    ));
    if ctx::keeping_trace() {
      for (i, s) in scripts.iter().enumerate() {
        ctx::trace(format!("script c{i}: {s:?}"));
      }
    }

    // ---- run under the executor ----
    {
      let shr = &sh;
      let mut ex = Exec::new();
      for (i, script) in scripts.into_iter().enumerate() {
        ex.spawn(format!("c{i}"), async move {
          for op in script {
            run_op(shr, i, op).await;
            yield_now().await;
          }
        });
      }
      let mut steps = 0u64;
      loop {
        let runnable = ex.runnable();
        if runnable.is_empty() {
          let live = ex.live();
          if !live.is_empty() {
            ctx::violation(
              prop,
              "C15.no_deadlock",
              "ks/deadlock",
              format!("{} client tasks pending and nobody woken (lost wake-up or deadlock)", live.len()),
            );
          }
          break;
        }
        steps += 1;
        if steps > 20_000 {
          ctx::violation(prop, "C15.no_deadlock", "ks/livelock", "step cap reached with runnable tasks");
          break;
        }
        let pick = runnable[ctx::choose(runnable.len())];
        ctx::sched("pick", pick as u64);
        ex.poll(pick);
      }
      ctx::stat_n("steps", steps);
    }
    set_hook_yields(false);

    // ---- history checks ----
    let events = sh.events.borrow();
    if ctx::keeping_trace() {
      let mut sorted: Vec<&Event> = events.iter().collect();
      sorted.sort_by_key(|e| e.inv);
      for e in sorted {
        ctx::trace(format!(
          "c{} [{}..{}] {}({}) -> {:?}",
          e.client, e.inv, e.ret, e.kind, e.arg, e.result
        ));
      }
    } else {
      // the hash must still cover the history
      let mut sorted: Vec<&Event> = events.iter().collect();
      sorted.sort_by_key(|e| e.inv);
      for e in sorted {
        ctx::trace(format!("{} {} {} {:?}", e.client, e.inv, e.ret, e.result));
      }
    }
    let mut by_obj: BTreeMap<&str, Vec<&Event>> = BTreeMap::new();
    for e in events.iter() {
      if let Some(o) = &e.object {
        by_obj.entry(o.as_str()).or_default().push(e);
      }
      match (&e.kind, &e.result) {
        (&"sign", Ret::Signed) => ctx::stat("probe.sign_ok"),
        (&"sign", Ret::Err(_)) => ctx::stat("probe.sign_missing_key"),
        (&"delete", Ret::Err(_)) => ctx::stat("probe.delete_missing"),
        (&"insert", Ret::Refused) => ctx::stat("probe.insert_invalid_refused"),
        (&"generate", Ret::Refused) => ctx::stat("probe.generate_invalid_refused"),
        _ => {}
      }
    }
    let mut overlapped = false;
    for (obj, evs) in &by_obj {
      for (i, a) in evs.iter().enumerate() {
        for b in evs.iter().skip(i + 1) {
          if a.inv < b.ret && b.inv < a.ret {
            overlapped = true;
          }
        }
      }
      let mut budget = 200_000u64;
      ctx::stat("probe.lin_checked_objects");
      match linearizable(evs, &mut budget) {
        Some(true) => {}
        Some(false) => {
          let kinds: Vec<String> = {
            let mut k: Vec<String> = evs.iter().map(|e| e.kind.to_owned()).collect();
            k.sort();
            k.dedup();
            k
          };
          let objkind = obj.split(':').next().unwrap_or("");
          let mut sorted = evs.clone();
          sorted.sort_by_key(|e| e.inv);
          ctx::violation(
            prop,
            if objkind == "digest" {
              "C15.key_id_store_linearizable"
            } else {
              "C15.key_store_linearizable"
            },
            format!("lin/{objkind}/{}", kinds.join("+")),
            format!(
              "history of {obj} has no linearization: {}",
              sorted
                .iter()
                .map(|e| format!("c{}[{}..{}]{}({})->{:?}", e.client, e.inv, e.ret, e.kind, e.arg, e.result))
                .collect::<Vec<_>>()
                .join("; ")
            ),
          );
        }
        None => ctx::stat("lin.budget_exhausted"),
      }
    }
    if overlapped {
      ctx::stat("probe.overlap_same_object");
      ctx::mark_nontrivial();
    }

    // ---- race scenario clauses ----
    if race_mode {
      let winners: Vec<&Event> = events
        .iter()
        .filter(|e| e.kind == "insert_key_id" && matches!(e.result, Ret::Ok))
        .collect();
      let losers = events.len() - winners.len();
      ctx::stat_n("probe.race_losers", losers as u64);
      if winners.len() != 1 {
        ctx::violation(
          prop,
          "C15.one_key_id_per_digest",
          format!("race/winners={}", winners.len().min(2)),
          format!("{} of {n_clients} racing insert_key_id calls for one digest succeeded", winners.len()),
        );
      } else {
        let stored = crate::core::exec::block_on(sh.kid.get_key_id(&sh.digests[0]));
        let stored2 = crate::core::exec::block_on(sh.kid.get_key_id(&sh.digests[0]));
        match (&stored, &stored2) {
          (Ok(a), Ok(b)) if a.as_str() == winners[0].arg && b.as_str() == winners[0].arg => {}
          _ => ctx::violation(
            prop,
            "C15.one_key_id_per_digest",
            "race/mapping-not-winner",
            format!(
              "winner inserted {} but get_key_id returns {:?} then {:?}",
              winners[0].arg,
              stored.as_ref().map(|k| k.as_str().to_owned()).map_err(|e| e.to_string()),
              stored2.as_ref().map(|k| k.as_str().to_owned()).map_err(|e| e.to_string())
            ),
          ),
        }
      }
    }

    // ---- cryptographic clauses ----
    let publics = sh.publics.borrow();
    for (id, data, sig) in sh.signatures.borrow().iter() {
      match publics.get(id) {
        Some(pk) => {
          if !verify_ed25519(pk, data, sig) {
            ctx::violation(
              prop,
              "C15.signature_verifies_under_own_key",
              "sign/does-not-verify",
              format!("signature returned for key id {id} does not verify under that key's public JWK"),
            );
          }
        }
        None => ctx::violation(
          prop,
          "C15.never_issued_does_not_sign",
          "sign/unknown-key-id-signed",
          format!("a signature was returned for key id {id} which no generate/insert issued"),
        ),
      }
      let own_x = publics.get(id).and_then(|pk| serde_json::to_value(pk).ok()).and_then(|v| v.get("x").cloned());
      for (other, pk) in publics.iter() {
        // (the same key material stored under a second key id is not another key)
        let same_material = serde_json::to_value(pk).ok().and_then(|v| v.get("x").cloned()) == own_x;
        if other != id && !same_material && verify_ed25519(pk, data, sig) {
          ctx::violation(
            prop,
            "C15.signature_verifies_under_no_other_key",
            "sign/verifies-under-other-key",
            format!("signature made for key id {id} verifies under the public key of {other}"),
          );
        }
      }
    }
    // seeded secrets: the public key returned by generate is the one derived from the secret handed out
    {
      let kg = keygen.borrow();
      let derived: HashSet<String> = kg.issued_secrets.iter().map(ed25519_public_x).collect();
      for e in events.iter() {
        if let (&"generate", Ret::Created(id)) = (&e.kind, &e.result) {
          if let Some(pk) = publics.get(id) {
            let x = serde_json::to_value(pk)
              .ok()
              .and_then(|v| v.get("x").and_then(|x| x.as_str().map(str::to_owned)))
              .unwrap_or_default();
            if !derived.contains(&x) {
              ctx::violation(
                prop,
                "C15.generate_public_matches_secret",
                "generate/public-not-from-secret",
                format!("generate returned public key {x} that does not belong to any secret it drew"),
              );
            }
          }
        }
      }
    }
    ctx::stat_max("max.clients", n_clients as u64);
    ctx::stat_n("ops", events.len() as u64);
    uninstall_hooks();
  }
}
