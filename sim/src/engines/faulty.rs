//! Fault-injecting, recording wrappers around the REAL in-memory stores (the existing `JwkStorage` / `KeyIdStorage`
//! seams). A wrapper (1) records every call, (2) offers the scheduler a yield before and after the inner call,
//! (3) lets the fault plan turn the call into a clean failure (an `Err` of a documented kind, inner store untouched) or,
//! for the three calls whose effect the caller can name and take back (`insert_key_id`, `delete_key_id`, `delete`), into
//! a DIRTY failure: the inner call is made and takes effect, the acknowledgement is lost and the caller sees an `Err`.
//! The `inner` stores stay reachable for the oracle's un-faulted observer reads.

use crate::core::ctx;
use crate::core::exec::yield_now;
use async_trait::async_trait;
use identity_jose::jwk::Jwk;
use identity_jose::jws::JwsAlgorithm;
use identity_storage::JwkGenOutput;
use identity_storage::JwkMemStore;
use identity_storage::JwkStorage;
use identity_storage::KeyId;
use identity_storage::KeyIdMemstore;
use identity_storage::KeyIdStorage;
use identity_storage::KeyIdStorageError;
use identity_storage::KeyIdStorageErrorKind;
use identity_storage::KeyIdStorageResult;
use identity_storage::KeyStorageError;
use identity_storage::KeyStorageErrorKind;
use identity_storage::KeyStorageResult;
use identity_storage::KeyType;
use identity_storage::MethodDigest;
use std::cell::Cell;
use std::cell::RefCell;
use std::collections::BTreeMap;
use std::rc::Rc;

#[derive(Clone, Debug)]
pub struct SignEvent {
  pub key_id: String,
  pub signing_input: Vec<u8>,
  pub signature: Vec<u8>,
  pub public_x: String,
}

#[derive(Default)]
pub struct FaultCtl {
  /// faults are injected only while armed
  pub armed: Cell<bool>,
  /// bit i set = the i-th storage call (by occurrence) of the current operation fails cleanly
  pub mask: Cell<u32>,
  /// bit i set (together with bit i of `mask`) = that failure is dirty: the call takes effect, then reports an error
  pub dirty: Cell<u32>,
  pub call_index: Cell<u32>,
  /// alternative to the mask: per-kind failure rates (num, den), used by the world engine
  pub rates: RefCell<BTreeMap<&'static str, (u32, u32)>>,
  /// probability that a wrapper yield point yields
  pub yield_rate: Cell<(u32, u32)>,
  /// calls of the current operation: (kind, failed-by-injection, result ok)
  pub calls: RefCell<Vec<(&'static str, bool, bool)>>,
  /// completion order of calls in the current operation
  pub completions: RefCell<Vec<&'static str>>,
  /// every digest ever passed to the key id store (packed bytes → digest), for observer snapshots
  pub digests: RefCell<BTreeMap<Vec<u8>, MethodDigest>>,
  /// every successful signing event at the seam
  pub sign_log: RefCell<Vec<SignEvent>>,
  pub faults_fired: Cell<u64>,
  /// a key store that does not set `kid` on the JWKs it generates (legal: `generate_method` documents the case)
  pub strip_kid: Cell<bool>,
  /// a key store that does not set the optional `alg` member on the JWKs it generates
  pub strip_alg: Cell<bool>,
}

impl FaultCtl {
  pub fn begin_op(&self, mask: u32) {
    self.armed.set(true);
    self.mask.set(mask);
    self.call_index.set(0);
    self.calls.borrow_mut().clear();
    self.completions.borrow_mut().clear();
  }
  pub fn end_op(&self) {
    self.armed.set(false);
    self.mask.set(0);
    self.dirty.set(0);
  }
  /// Like `decide`, for the calls that may fail dirty: (fails, dirty).
  fn decide_dirty(&self, kind: &'static str) -> (bool, bool) {
    self.decide_how(kind, true)
  }
  fn decide(&self, kind: &'static str) -> bool {
    self.decide_how(kind, false).0
  }
  fn decide_how(&self, kind: &'static str, may_be_dirty: bool) -> (bool, bool) {
    if !self.armed.get() {
      return (false, false);
    }
    let idx = self.call_index.get();
    self.call_index.set(idx + 1);
    let by_mask = idx < 32 && (self.mask.get() >> idx) & 1 == 1;
    let by_rate = match self.rates.borrow().get(kind) {
      Some((n, d)) if *n > 0 => ctx::chance(*n, *d),
      _ => false,
    };
    let fail = by_mask || by_rate;
    let dirty = may_be_dirty && by_mask && (self.dirty.get() >> idx) & 1 == 1;
    if fail {
      self.faults_fired.set(self.faults_fired.get() + 1);
      if dirty {
        ctx::stat(&format!("fault.storage.fail_dirty.{kind}"));
        ctx::sched("dirty", idx as u64 + 1);
      } else {
        ctx::stat(&format!("fault.storage.fail_clean.{kind}"));
      }
      ctx::sched(kind, idx as u64 + 1);
    }
    (fail, dirty)
  }
  async fn maybe_yield(&self, label: &'static str) {
    let (n, d) = self.yield_rate.get();
    if n > 0 && ctx::chance(n, d) {
      ctx::stat("fault.storage.latency_yield");
      ctx::sched(label, 77);
      yield_now().await;
    }
  }
  fn record(&self, kind: &'static str, injected: bool, ok: bool) {
    self.calls.borrow_mut().push((kind, injected, ok));
    self.completions.borrow_mut().push(kind);
  }
  pub fn note_digest(&self, d: &MethodDigest) {
    self.digests.borrow_mut().entry(d.pack()).or_insert_with(|| d.clone());
  }
  /// "generate:ok,insert_key_id:FAIL,delete:ok"
  pub fn call_summary(&self) -> String {
    self
      .calls
      .borrow()
      .iter()
      .map(|(k, inj, ok)| format!("{k}:{}", if *inj { "FAIL" } else if *ok { "ok" } else { "err" }))
      .collect::<Vec<_>>()
      .join(",")
  }
  pub fn failed_kinds(&self) -> Vec<&'static str> {
    self.calls.borrow().iter().filter(|c| c.1).map(|c| c.0).collect()
  }
}

fn jwk_err_for(ctl: &FaultCtl) -> KeyStorageError {
  // A store that loses acknowledgements AND answers "not found" for an entry it holds is not failing but lying: no
  // caller can cope with that. In an operation with dirty failures injected errors are of every kind but "not found"
  // (a session that expires between the write and its acknowledgement reports Unauthenticated, an acknowledgement
  // that cannot be decoded SerializationError, ...).
  if ctl.dirty.get() != 0 {
    let kind = match ctx::choose(7) {
      0 => KeyStorageErrorKind::RetryableIOFailure,
      1 => KeyStorageErrorKind::Unavailable,
      2 => KeyStorageErrorKind::Unauthenticated,
      3 => KeyStorageErrorKind::Unspecified,
      4 => KeyStorageErrorKind::KeyAlgorithmMismatch,
      5 => KeyStorageErrorKind::UnsupportedKeyType,
      _ => KeyStorageErrorKind::SerializationError,
    };
    return KeyStorageError::new(kind).with_custom_message("injected by simulator");
  }
  jwk_err()
}

fn kid_err_for(ctl: &FaultCtl) -> KeyIdStorageError {
  if ctl.dirty.get() != 0 {
    let kind = match ctx::choose(6) {
      0 => KeyIdStorageErrorKind::RetryableIOFailure,
      1 => KeyIdStorageErrorKind::Unavailable,
      2 => KeyIdStorageErrorKind::Unauthenticated,
      3 => KeyIdStorageErrorKind::Unspecified,
      4 => KeyIdStorageErrorKind::KeyIdAlreadyExists,
      _ => KeyIdStorageErrorKind::SerializationError,
    };
    return KeyIdStorageError::new(kind).with_custom_message("injected by simulator");
  }
  kid_err()
}

fn jwk_err() -> KeyStorageError {
  // every error kind a backend may answer with, including the ones that read like a verdict about the key ("not
  // found" from an eventually consistent backend): a failed call is a failed call
  let kind = match ctx::choose(8) {
    0 => KeyStorageErrorKind::RetryableIOFailure,
    1 => KeyStorageErrorKind::Unavailable,
    2 => KeyStorageErrorKind::Unauthenticated,
    3 => KeyStorageErrorKind::KeyNotFound,
    4 => KeyStorageErrorKind::Unspecified,
    6 => KeyStorageErrorKind::KeyAlgorithmMismatch,
    7 => KeyStorageErrorKind::UnsupportedKeyType,
    _ => KeyStorageErrorKind::SerializationError,
  };
  KeyStorageError::new(kind).with_custom_message("injected by simulator")
}

fn kid_err() -> KeyIdStorageError {
  let kind = match ctx::choose(7) {
    0 => KeyIdStorageErrorKind::RetryableIOFailure,
    1 => KeyIdStorageErrorKind::Unavailable,
    2 => KeyIdStorageErrorKind::Unauthenticated,
    3 => KeyIdStorageErrorKind::KeyIdNotFound,
    4 => KeyIdStorageErrorKind::Unspecified,
    // ("already exists" from a backend that answers from a stale replica: the call failed, nothing was written)
    6 => KeyIdStorageErrorKind::KeyIdAlreadyExists,
    _ => KeyIdStorageErrorKind::SerializationError,
  };
  KeyIdStorageError::new(kind).with_custom_message("injected by simulator")
}

pub struct FaultyJwk {
  pub inner: JwkMemStore,
  pub ctl: Rc<FaultCtl>,
}

pub struct FaultyKeyId {
  pub inner: KeyIdMemstore,
  pub ctl: Rc<FaultCtl>,
}

#[async_trait(?Send)]
impl JwkStorage for FaultyJwk {
  async fn generate(&self, key_type: KeyType, alg: JwsAlgorithm) -> KeyStorageResult<JwkGenOutput> {
    self.ctl.maybe_yield("w.generate.pre").await;
    if self.ctl.decide("generate") {
      self.ctl.record("generate", true, false);
      return Err(jwk_err_for(&self.ctl));
    }
    let mut r = self.inner.generate(key_type, alg).await;
    if self.ctl.strip_kid.get() || self.ctl.strip_alg.get() {
      if let Ok(out) = &r {
        let mut j = serde_json::to_value(&out.jwk).expect("jwk to json");
        if let Some(o) = j.as_object_mut() {
          if self.ctl.strip_kid.get() {
            o.remove("kid");
          }
          if self.ctl.strip_alg.get() {
            o.remove("alg");
          }
        }
        if let Ok(jwk) = serde_json::from_value::<Jwk>(j) {
          r = Ok(JwkGenOutput::new(out.key_id.clone(), jwk));
        }
      }
    }
    self.ctl.maybe_yield("w.generate.post").await;
    self.ctl.record("generate", false, r.is_ok());
    r
  }

  async fn insert(&self, jwk: Jwk) -> KeyStorageResult<KeyId> {
    self.ctl.maybe_yield("w.insert.pre").await;
    if self.ctl.decide("insert") {
      self.ctl.record("insert", true, false);
      return Err(jwk_err_for(&self.ctl));
    }
    let r = self.inner.insert(jwk).await;
    self.ctl.maybe_yield("w.insert.post").await;
    self.ctl.record("insert", false, r.is_ok());
    r
  }

  async fn sign(&self, key_id: &KeyId, data: &[u8], public_key: &Jwk) -> KeyStorageResult<Vec<u8>> {
    self.ctl.maybe_yield("w.sign.pre").await;
    if self.ctl.decide("sign") {
      self.ctl.record("sign", true, false);
      return Err(jwk_err_for(&self.ctl));
    }
    let r = self.inner.sign(key_id, data, public_key).await;
    self.ctl.maybe_yield("w.sign.post").await;
    self.ctl.record("sign", false, r.is_ok());
    if let Ok(sig) = &r {
      let x = serde_json::to_value(public_key)
        .ok()
        .and_then(|v| v.get("x").and_then(|x| x.as_str().map(str::to_owned)))
        .unwrap_or_default();
      self.ctl.sign_log.borrow_mut().push(SignEvent {
        key_id: key_id.as_str().to_owned(),
        signing_input: data.to_vec(),
        signature: sig.clone(),
        public_x: x,
      });
    }
    r
  }

  async fn delete(&self, key_id: &KeyId) -> KeyStorageResult<()> {
    self.ctl.maybe_yield("w.delete.pre").await;
    let (fail, dirty) = self.ctl.decide_dirty("delete");
    if fail {
      self.ctl.record("delete", true, false);
      if dirty {
        // the key is removed, the acknowledgement is lost (a failure of the store's own is returned as it is)
        self.inner.delete(key_id).await?;
      }
      return Err(jwk_err_for(&self.ctl));
    }
    let r = self.inner.delete(key_id).await;
    self.ctl.maybe_yield("w.delete.post").await;
    self.ctl.record("delete", false, r.is_ok());
    r
  }

  async fn exists(&self, key_id: &KeyId) -> KeyStorageResult<bool> {
    self.ctl.maybe_yield("w.exists.pre").await;
    if self.ctl.decide("exists") {
      self.ctl.record("exists", true, false);
      return Err(jwk_err_for(&self.ctl));
    }
    let r = self.inner.exists(key_id).await;
    self.ctl.record("exists", false, r.is_ok());
    r
  }
}

#[async_trait(?Send)]
impl KeyIdStorage for FaultyKeyId {
  async fn insert_key_id(&self, method_digest: MethodDigest, key_id: KeyId) -> KeyIdStorageResult<()> {
    self.ctl.note_digest(&method_digest);
    self.ctl.maybe_yield("w.insert_key_id.pre").await;
    let (fail, dirty) = self.ctl.decide_dirty("insert_key_id");
    if fail {
      self.ctl.record("insert_key_id", true, false);
      if dirty {
        self.inner.insert_key_id(method_digest, key_id).await?;
      }
      return Err(kid_err_for(&self.ctl));
    }
    let r = self.inner.insert_key_id(method_digest, key_id).await;
    self.ctl.maybe_yield("w.insert_key_id.post").await;
    self.ctl.record("insert_key_id", false, r.is_ok());
    r
  }

  async fn get_key_id(&self, method_digest: &MethodDigest) -> KeyIdStorageResult<KeyId> {
    self.ctl.note_digest(method_digest);
    self.ctl.maybe_yield("w.get_key_id.pre").await;
    if self.ctl.decide("get_key_id") {
      self.ctl.record("get_key_id", true, false);
      return Err(kid_err_for(&self.ctl));
    }
    let r = self.inner.get_key_id(method_digest).await;
    self.ctl.maybe_yield("w.get_key_id.post").await;
    self.ctl.record("get_key_id", false, r.is_ok());
    r
  }

  async fn delete_key_id(&self, method_digest: &MethodDigest) -> KeyIdStorageResult<()> {
    self.ctl.note_digest(method_digest);
    self.ctl.maybe_yield("w.delete_key_id.pre").await;
    let (fail, dirty) = self.ctl.decide_dirty("delete_key_id");
    if fail {
      self.ctl.record("delete_key_id", true, false);
      if dirty {
        self.inner.delete_key_id(method_digest).await?;
      }
      return Err(kid_err_for(&self.ctl));
    }
    let r = self.inner.delete_key_id(method_digest).await;
    self.ctl.maybe_yield("w.delete_key_id.post").await;
    self.ctl.record("delete_key_id", false, r.is_ok());
    r
  }
}

/// Observed contents of both stores, read through the un-faulted inner stores.
#[derive(Clone, Debug, PartialEq, Eq)]
pub struct StoreSnapshot {
  /// key ids (among all ids ever issued or mentioned) that exist
  pub keys: std::collections::BTreeSet<String>,
  pub key_count: usize,
  /// packed digest (hex) → key id
  pub key_ids: BTreeMap<String, String>,
  pub key_id_count: usize,
}

pub fn hex(b: &[u8]) -> String {
  b.iter().map(|x| format!("{x:02x}")).collect()
}

pub fn snapshot(jwk: &JwkMemStore, kid: &KeyIdMemstore, ctl: &FaultCtl, known_key_ids: &[String]) -> StoreSnapshot {
  use crate::core::exec::block_on;
  let mut keys = std::collections::BTreeSet::new();
  for k in known_key_ids {
    if block_on(jwk.exists(&KeyId::new(k.clone()))).unwrap_or(false) {
      keys.insert(k.clone());
    }
  }
  let mut key_ids = BTreeMap::new();
  for (packed, d) in ctl.digests.borrow().iter() {
    if let Ok(k) = block_on(kid.get_key_id(d)) {
      key_ids.insert(hex(packed), k.as_str().to_owned());
    }
  }
  StoreSnapshot {
    keys,
    key_count: block_on(jwk.count()),
    key_ids,
    key_id_count: block_on(kid.count()),
  }
}
