//! `stor` — storage-fault / document-history simulator (C09, C04).
//!
//! Real code: `CoreDocument` / `IotaDocument` mutators and queries, `JwkDocumentExt::{generate_method, purge_method,
//! create_jws}`, `Storage`, `JwkMemStore`, `KeyIdMemstore`, `MethodDigest`, `EdDSAJwsVerifier`, JSON (de)serialisation,
//! state-metadata pack/unpack. Stubs: none; the storage wrappers only add faults, yields and recording.

use crate::core::batch::Engine;
use crate::core::batch::Params;
use crate::core::ctx;
use crate::core::exec::yield_now;
use crate::core::exec::Exec;
use crate::engines::docmodel::vid;
use crate::engines::docmodel::MRef;
use crate::engines::docmodel::ModelDoc;
use crate::engines::docmodel::Scope;
use crate::engines::docmodel::RELS;
use crate::engines::faulty::hex;
use crate::engines::faulty::snapshot;
use crate::engines::faulty::FaultCtl;
use crate::engines::faulty::FaultyJwk;
use crate::engines::faulty::FaultyKeyId;
use crate::engines::faulty::StoreSnapshot;
use crate::engines::ks;
use crate::engines::ks::KeyGen;
use identity_core::convert::FromJson;
use identity_core::convert::ToJson;
use identity_did::CoreDID;
use identity_did::DIDUrl;
use identity_document::document::CoreDocument;
use identity_document::service::Service;
use identity_document::verifiable::JwsVerificationOptions;
use identity_eddsa_verifier::EdDSAJwsVerifier;
use identity_iota_core::IotaDID;
use identity_iota_core::IotaDocument;
use identity_iota_core::StateMetadataDocument;
use identity_jose::jws::JwsAlgorithm;
use identity_storage::JwkDocumentExt;
use identity_storage::JwkMemStore;
use identity_storage::JwkStorage;
use identity_storage::JwkStorageDocumentError;
use identity_storage::JwsSignatureOptions;
use identity_storage::KeyIdMemstore;
use identity_storage::KeyIdStorage;
use identity_storage::KeyId;
use identity_storage::MethodDigest;
use identity_storage::Storage;
use identity_verification::MethodRelationship;
use identity_verification::MethodScope;
use identity_verification::VerificationMethod;
use serde_json::Value;
use std::cell::RefCell;
use std::collections::BTreeSet;
use std::rc::Rc;

pub struct StorEngine;

type Stor = Storage<FaultyJwk, FaultyKeyId>;

pub enum AnyDoc {
  Core(CoreDocument),
  Iota(IotaDocument),
}

const RELATIONSHIPS: [MethodRelationship; 5] = [
  MethodRelationship::Authentication,
  MethodRelationship::AssertionMethod,
  MethodRelationship::KeyAgreement,
  MethodRelationship::CapabilityDelegation,
  MethodRelationship::CapabilityInvocation,
];

pub fn to_scope(s: Scope) -> MethodScope {
  match s {
    None => MethodScope::VerificationMethod,
    Some(i) => MethodScope::VerificationRelationship(RELATIONSHIPS[i]),
  }
}

pub fn scope_name(s: Scope) -> &'static str {
  match s {
    None => "verificationMethod",
    Some(i) => RELS[i],
  }
}

impl AnyDoc {
  pub fn core(&self) -> &CoreDocument {
    match self {
      AnyDoc::Core(d) => d,
      AnyDoc::Iota(d) => d.core_document(),
    }
  }
  pub fn kind(&self) -> &'static str {
    match self {
      AnyDoc::Core(_) => "core",
      AnyDoc::Iota(_) => "iota",
    }
  }
  pub fn model(&self) -> ModelDoc {
    ModelDoc::from_json(&serde_json::to_value(self.core()).expect("document serialises to a JSON value"))
  }
  fn insert_method(&mut self, m: VerificationMethod, s: MethodScope) -> Result<(), String> {
    match self {
      AnyDoc::Core(d) => d.insert_method(m, s).map_err(|e| e.to_string()),
      AnyDoc::Iota(d) => d.insert_method(m, s).map_err(|e| e.to_string()),
    }
  }
  fn remove_method(&mut self, id: &DIDUrl) -> Option<VerificationMethod> {
    match self {
      AnyDoc::Core(d) => d.remove_method(id),
      AnyDoc::Iota(d) => d.remove_method(id),
    }
  }
  fn attach(&mut self, q: &str, r: MethodRelationship) -> Result<bool, String> {
    match self {
      AnyDoc::Core(d) => d.attach_method_relationship(q, r).map_err(|e| e.to_string()),
      AnyDoc::Iota(d) => d.attach_method_relationship(q, r).map_err(|e| e.to_string()),
    }
  }
  fn detach(&mut self, q: &str, r: MethodRelationship) -> Result<bool, String> {
    match self {
      AnyDoc::Core(d) => d.detach_method_relationship(q, r).map_err(|e| e.to_string()),
      AnyDoc::Iota(d) => d.detach_method_relationship(q, r).map_err(|e| e.to_string()),
    }
  }
  fn insert_service(&mut self, s: Service) -> Result<(), String> {
    match self {
      AnyDoc::Core(d) => d.insert_service(s).map_err(|e| e.to_string()),
      AnyDoc::Iota(d) => d.insert_service(s).map_err(|e| e.to_string()),
    }
  }
  fn remove_service(&mut self, id: &DIDUrl) -> Option<Service> {
    match self {
      AnyDoc::Core(d) => d.remove_service(id),
      AnyDoc::Iota(d) => d.remove_service(id),
    }
  }
  async fn generate_method(
    &mut self,
    st: &Stor,
    fragment: Option<&str>,
    scope: MethodScope,
  ) -> Result<String, JwkStorageDocumentError> {
    match self {
      AnyDoc::Core(d) => {
        d.generate_method(st, JwkMemStore::ED25519_KEY_TYPE, JwsAlgorithm::EdDSA, fragment, scope)
          .await
      }
      AnyDoc::Iota(d) => {
        d.generate_method(st, JwkMemStore::ED25519_KEY_TYPE, JwsAlgorithm::EdDSA, fragment, scope)
          .await
      }
    }
  }
  async fn purge_method(&mut self, st: &Stor, id: &DIDUrl) -> Result<(), JwkStorageDocumentError> {
    match self {
      AnyDoc::Core(d) => d.purge_method(st, id).await,
      AnyDoc::Iota(d) => d.purge_method(st, id).await,
    }
  }
  async fn create_jws(&self, st: &Stor, fragment: &str, payload: &[u8]) -> Result<String, JwkStorageDocumentError> {
    let opts = JwsSignatureOptions::default();
    match self {
      AnyDoc::Core(d) => d.create_jws(st, fragment, payload, &opts).await.map(|j| j.as_str().to_owned()),
      AnyDoc::Iota(d) => d.create_jws(st, fragment, payload, &opts).await.map(|j| j.as_str().to_owned()),
    }
  }
  /// I4.3: JSON round trip (and state-metadata round trip for IOTA documents).
  fn roundtrip(&self) -> Result<(), String> {
    match self {
      AnyDoc::Core(d) => {
        let json = d.to_json().map_err(|e| format!("to_json failed: {e}"))?;
        let back = CoreDocument::from_json(&json).map_err(|e| format!("own JSON rejected: {e}"))?;
        if &back != d {
          return Err("JSON round trip yields a different document".to_owned());
        }
        Ok(())
      }
      AnyDoc::Iota(d) => {
        let json = d.to_json().map_err(|e| format!("to_json failed: {e}"))?;
        let back = IotaDocument::from_json(&json).map_err(|e| format!("own JSON rejected: {e}"))?;
        if &back != d {
          return Err("JSON round trip yields a different document".to_owned());
        }
        let bytes = d.clone().pack().map_err(|e| format!("pack failed: {e}"))?;
        let unpacked = StateMetadataDocument::unpack(&bytes)
          .and_then(|s| s.into_iota_document(d.id()))
          .map_err(|e| format!("own packed bytes rejected: {e}"))?;
        if unpacked.core_document() != d.core_document() {
          return Err("pack/unpack round trip yields a different document".to_owned());
        }
        Ok(())
      }
    }
  }
}

fn harness_method(did: &str, fragment: &str, salt: u8) -> VerificationMethod {
  let mut x = [salt; 32];
  for (i, b) in did.bytes().chain(fragment.bytes()).enumerate() {
    x[i % 32] ^= b.wrapping_mul(31).wrapping_add(i as u8);
  }
  let mut jwk_json = serde_json::json!({"kty":"OKP","crv":"Ed25519","alg":"EdDSA","x": ks::b64(&x)});
  // optional JWK members as they arrive from other producers, empty lists included
  match salt % 11 {
    4 => jwk_json["key_ops"] = serde_json::json!([]),
    5 => jwk_json["key_ops"] = serde_json::json!(["verify"]),
    6 => jwk_json["x5c"] = serde_json::json!([]),
    7 => jwk_json["use"] = "sig".into(),
    _ => {}
  }
  let jwk: identity_jose::jwk::Jwk = serde_json::from_value(jwk_json).unwrap_or_else(|_| {
    serde_json::from_value(serde_json::json!({"kty":"OKP","crv":"Ed25519","alg":"EdDSA","x": ks::b64(&x)})).unwrap()
  });
  let mut m = VerificationMethod::new_from_jwk(CoreDID::parse(did).unwrap(), jwk, Some(fragment)).expect("harness method builds");
  // one method in five carries its key as publicKeyMultibase instead of a JWK, one in seven as publicKeyBase58
  if salt % 5 == 2 || salt % 7 == 3 {
    if let Ok(mb) = VerificationMethod::builder(Default::default())
      .id(m.id().clone())
      .controller(m.controller().clone())
      .type_(identity_verification::MethodType::ED25519_VERIFICATION_KEY_2018)
      .data(if salt % 5 == 2 {
        identity_verification::MethodData::new_multibase(x)
      } else {
        identity_verification::MethodData::new_base58(x)
      })
      .build()
    {
      m = mb;
    }
  }
  // DID-core allows further properties on a verification method (derived from the salt, not from the tape: the
  // function is also used to rebuild expected values)
  if salt % 3 == 1 {
    m.properties_mut().insert("purpose".to_owned(), Value::from(format!("sim-{salt}")));
  }
  m
}

fn harness_service(did: &str, fragment: &str, n: u32) -> Value {
  serde_json::json!({"id": format!("{did}#{fragment}"), "type": "SimService", "serviceEndpoint": format!("https://sim.example/{fragment}/{n}")})
}

/// Generates a start-state model that satisfies the document constraints but includes what the mutators can never
/// create themselves: dangling references (own and foreign DID), foreign-DID embedded methods, and ids sharing a
/// fragment under different DIDs.
fn gen_start_model(own: &str, foreign: &str, frags: &[&str]) -> ModelDoc {
  let mut m = ModelDoc::empty(own);
  for did in [own, foreign] {
    for f in frags {
      let id = format!("{did}#{f}");
      // role of this id
      match ctx::weighted(&[6, 3, 2, 2, 2]) {
        0 => {}
        1 => {
          m.vm
            .push(serde_json::to_value(harness_method(did, f, 1)).expect("method to value"));
          // references to it from some relationships
          for r in 0..5 {
            if ctx::chance(1, 4) {
              m.rel[r].push(MRef::Refer(id.clone()));
            }
          }
        }
        2 => {
          let r = ctx::choose(5);
          m.rel[r].push(MRef::Embed(
            serde_json::to_value(harness_method(did, f, 2)).expect("method to value"),
          ));
        }
        3 => {
          // dangling reference(s): legal in a document, e.g. a reference into another DID document
          for r in 0..5 {
            if ctx::chance(1, 3) {
              m.rel[r].push(MRef::Refer(id.clone()));
            }
          }
        }
        _ => m.services.push(harness_service(did, f, 0)),
      }
    }
  }
  m
}

#[derive(Clone, Debug)]
enum Op {
  Generate { doc: usize, scope: Scope, fragment: Option<String> },
  Purge { doc: usize, id: String },
  InsertMethod { doc: usize, did: String, fragment: String, scope: Scope },
  RemoveMethod { doc: usize, id: String },
  Attach { doc: usize, query: String, rel: usize },
  Detach { doc: usize, query: String, rel: usize },
  InsertService { doc: usize, did: String, fragment: String },
  RemoveService { doc: usize, id: String },
}

struct Run<'a> {
  prop: &'a str,
  docs: Vec<AnyDoc>,
  owns: Vec<String>,
  foreign: Vec<String>,
  frags: Vec<&'static str>,
  storage: Stor,
  ctl: Rc<FaultCtl>,
  keygen: Rc<RefCell<KeyGen>>,
  /// extra key ids the oracle must watch (bystander's, strays)
  extra_key_ids: Vec<String>,
  faulty: bool,
  bystander: bool,
  bystander_n: u32,
  step: usize,
  /// ids of methods created through generate_method (they have keys in the stores)
  generated: Vec<(usize, String)>,
}

fn err_kind(e: &JwkStorageDocumentError) -> &'static str {
  match e {
    JwkStorageDocumentError::KeyStorageError(_) => "KeyStorageError",
    JwkStorageDocumentError::KeyIdStorageError(_) => "KeyIdStorageError",
    JwkStorageDocumentError::FragmentAlreadyExists => "FragmentAlreadyExists",
    JwkStorageDocumentError::MethodNotFound => "MethodNotFound",
    JwkStorageDocumentError::UndoOperationFailed { .. } => "UndoOperationFailed",
    JwkStorageDocumentError::VerificationMethodConstructionError(_) => "VerificationMethodConstructionError",
    JwkStorageDocumentError::MethodDigestConstructionError(_) => "MethodDigestConstructionError",
    _ => "Other",
  }
}

impl<'a> Run<'a> {
  fn known_key_ids(&self) -> Vec<String> {
    let mut v = self.keygen.borrow().issued_ids.clone();
    v.extend(self.extra_key_ids.iter().cloned());
    v
  }
  fn snap(&self) -> StoreSnapshot {
    snapshot(
      &self.storage.key_storage().inner,
      &self.storage.key_id_storage().inner,
      &self.ctl,
      &self.known_key_ids(),
    )
  }

  fn universe_ids(&self, doc: usize) -> Vec<String> {
    let mut v = Vec::new();
    for did in [&self.owns[doc], &self.foreign[doc]] {
      for f in &self.frags {
        v.push(format!("{did}#{f}"));
      }
    }
    v
  }

  // ---------------------------------------------------------------------------------------------------------------
  // C04 invariants after every step
  // ---------------------------------------------------------------------------------------------------------------
  fn check_document(&self, doc_idx: usize, model: &ModelDoc, op_label: &str) {
    let doc = &self.docs[doc_idx];
    // I4.1
    for b in model.id_invariant_breaches() {
      let class = b.split(':').next().unwrap_or("").to_owned();
      ctx::violation(
        "C04",
        "C04.id_uniqueness",
        format!("{op_label}/{class}"),
        format!("after {op_label}: {b}"),
      );
    }
    // I4.3
    if let Err(e) = ctx::catch(|| doc.roundtrip()).unwrap_or_else(|p| Err(format!("panic: {p}"))) {
      ctx::violation(
        "C04",
        "C04.round_trip",
        format!("{op_label}/{}", doc.kind()),
        format!("after {op_label}: {e}"),
      );
    }
    // I4.4
    let core = doc.core();
    let mut queries: Vec<String> = self.universe_ids(doc_idx);
    for f in &self.frags {
      queries.push((*f).to_owned());
      queries.push(format!("#{f}"));
    }
    let scopes: [Option<Scope>; 7] = [
      None,
      Some(None),
      Some(Some(0)),
      Some(Some(1)),
      Some(Some(2)),
      Some(Some(3)),
      Some(Some(4)),
    ];
    // the mutable lookup must find the very method the shared lookup finds (checked on a copy, every other time)
    if ctx::choose(2) == 0 {
      let mut copy = core.clone();
      for q in &queries {
        for sc in scopes.iter() {
          let shared = core.resolve_method(q.as_str(), sc.map(to_scope)).map(|m| (m.id().to_string(), serde_json::to_value(m).ok()));
          let exclusive = copy.resolve_method_mut(q.as_str(), sc.map(to_scope)).map(|m| (m.id().to_string(), serde_json::to_value(&*m).ok()));
          if shared != exclusive {
            ctx::violation(
              "C04",
              "C04.resolve_method_matches_model",
              "resolve_method_mut-differs-from-resolve_method",
              format!(
                "after {op_label}: resolve_method({q}, {:?}) finds {:?} but resolve_method_mut finds {:?}",
                sc.map(scope_name),
                shared.map(|s| s.0),
                exclusive.map(|s| s.0)
              ),
            );
            break;
          }
        }
      }
    }
    // the query may be handed over as text, as a parsed DID URL, or as the relative part of one (`#fragment`)
    let query_form = ctx::choose(3);
    for q in &queries {
      let parsed: Option<DIDUrl> = if q.starts_with("did:") { DIDUrl::parse(q).ok() } else { None };
      for sc in scopes.iter() {
        let (got, q_effective): (Option<&VerificationMethod>, String) = match (query_form, &parsed) {
          (1, Some(u)) => (core.resolve_method(u, sc.map(to_scope)), q.clone()),
          (2, Some(u)) => (core.resolve_method(u.url(), sc.map(to_scope)), format!("#{}", u.fragment().unwrap_or(""))),
          _ => (core.resolve_method(q.as_str(), sc.map(to_scope)), q.clone()),
        };
        let q = &q_effective;
        let cands = model.resolve_method_candidates(q, *sc);
        let ok = cands.iter().any(|c| match (c, got) {
          (None, None) => true,
          (Some(v), Some(m)) => vid(v) == m.id().to_string() && serde_json::to_value(m).map(|j| &j == *v).unwrap_or(false),
          _ => false,
        });
        if !ok {
          let ambiguous = cands.len() > 1;
          ctx::violation(
            "C04",
            "C04.resolve_method_matches_model",
            format!(
              "{}query/{}/{}",
              if q.starts_with("did:") { "full-id-" } else { "fragment-" },
              match sc {
                None => "no-scope",
                Some(None) => "general-scope",
                Some(Some(_)) => "relationship-scope",
              },
              if ambiguous { "ambiguous" } else { "unambiguous" }
            ),
            format!(
              "after {op_label}: resolve_method({q}, {:?}) returned {:?}, model admits {:?}",
              sc.map(scope_name),
              got.map(|m| m.id().to_string()),
              cands.iter().map(|c| c.map(vid)).collect::<Vec<_>>()
            ),
          );
        }
      }
      let got = core.resolve_service(q.as_str());
      let cands = model.resolve_service_candidates(q);
      let ok = cands.iter().any(|c| match (c, got) {
        (None, None) => true,
        (Some(v), Some(s)) => vid(v) == s.id().to_string(),
        _ => false,
      });
      if !ok {
        ctx::violation(
          "C04",
          "C04.resolve_service_matches_model",
          "service-query",
          format!(
            "after {op_label}: resolve_service({q}) returned {:?}, model admits {:?}",
            got.map(|s| s.id().to_string()),
            cands.iter().map(|c| c.map(vid)).collect::<Vec<_>>()
          ),
        );
      }
    }
    for sc in scopes.iter() {
      let mut got: Vec<String> = core
        .methods(sc.map(to_scope))
        .iter()
        .map(|m| m.id().to_string())
        .collect();
      got.sort();
      let want = model.methods(*sc);
      if got != want {
        ctx::violation(
          "C04",
          "C04.methods_matches_model",
          format!("methods/{}", if sc.is_none() { "all" } else { "scoped" }),
          format!("after {op_label}: methods({:?}) = {got:?}, model predicts {want:?}", sc.map(scope_name)),
        );
      }
    }
  }

  // ---------------------------------------------------------------------------------------------------------------
  // Plain mutators (fault-free reference-model conformance)
  // ---------------------------------------------------------------------------------------------------------------
  fn plain_op(&mut self, op: &Op) {
    let (doc_idx, label): (usize, String) = match op {
      Op::InsertMethod { doc, scope, .. } => (*doc, format!("insert_method[{}]", scope_name(*scope))),
      Op::RemoveMethod { doc, .. } => (*doc, "remove_method".to_owned()),
      Op::Attach { doc, .. } => (*doc, "attach".to_owned()),
      Op::Detach { doc, .. } => (*doc, "detach".to_owned()),
      Op::InsertService { doc, .. } => (*doc, "insert_service".to_owned()),
      Op::RemoveService { doc, .. } => (*doc, "remove_service".to_owned()),
      _ => unreachable!(),
    };
    let pre_model = self.docs[doc_idx].model();
    let pre_doc_json = serde_json::to_value(self.docs[doc_idx].core()).unwrap();
    let mut expect = pre_model.clone();
    // (model outcome, real outcome) as strings "ok", "ok(true)", "refused", "some", "none"
    let (model_out, real_out, refused): (String, String, bool) = match op {
      Op::InsertMethod { did, fragment, scope, .. } => {
        let m = harness_method(did, fragment, 3 + self.step as u8);
        let mj = serde_json::to_value(&m).unwrap();
        let mo = expect.insert_method(&mj, *scope);
        let ro = self.docs[doc_idx].insert_method(m, to_scope(*scope));
        (
          if mo.is_ok() { "ok" } else { "refused" }.to_owned(),
          if ro.is_ok() { "ok" } else { "refused" }.to_owned(),
          ro.is_err(),
        )
      }
      Op::RemoveMethod { id, .. } => {
        let mo = expect.remove_method(id);
        let ro = self.docs[doc_idx].remove_method(&DIDUrl::parse(id).unwrap());
        (
          if mo.is_some() { "some" } else { "none" }.to_owned(),
          if ro.is_some() { "some" } else { "none" }.to_owned(),
          false,
        )
      }
      Op::Attach { query, rel, .. } => {
        let mo = expect.attach(query, *rel);
        let ro = self.docs[doc_idx].attach(query, RELATIONSHIPS[*rel]);
        (
          mo.map(|b| format!("ok({b})")).unwrap_or_else(|_| "refused".to_owned()),
          ro.as_ref().map(|b| format!("ok({b})")).unwrap_or_else(|_| "refused".to_owned()),
          ro.is_err(),
        )
      }
      Op::Detach { query, rel, .. } => {
        let mo = expect.detach(query, *rel);
        let ro = self.docs[doc_idx].detach(query, RELATIONSHIPS[*rel]);
        (
          mo.map(|b| format!("ok({b})")).unwrap_or_else(|_| "refused".to_owned()),
          ro.as_ref().map(|b| format!("ok({b})")).unwrap_or_else(|_| "refused".to_owned()),
          ro.is_err(),
        )
      }
      Op::InsertService { did, fragment, .. } => {
        let sj = harness_service(did, fragment, self.step as u32 + 1);
        let mo = expect.insert_service(&sj);
        let ro = self.docs[doc_idx].insert_service(Service::from_json_value(sj).expect("harness service parses"));
        (
          if mo.is_ok() { "ok" } else { "refused" }.to_owned(),
          if ro.is_ok() { "ok" } else { "refused" }.to_owned(),
          ro.is_err(),
        )
      }
      Op::RemoveService { id, .. } => {
        let mo = expect.remove_service(id);
        let ro = self.docs[doc_idx].remove_service(&DIDUrl::parse(id).unwrap());
        (
          if mo.is_some() { "some" } else { "none" }.to_owned(),
          if ro.is_some() { "some" } else { "none" }.to_owned(),
          false,
        )
      }
      _ => unreachable!(),
    };
    let post_model = self.docs[doc_idx].model();
    ctx::trace(format!("op{} doc{doc_idx} {op:?} -> {real_out}", self.step));
    ctx::cover(format!("c04op:{label}/{real_out}"));
    if refused {
      // I4.2: a refused operation leaves the document unchanged (exactly)
      let post_json = serde_json::to_value(self.docs[doc_idx].core()).unwrap();
      if post_json != pre_doc_json {
        ctx::violation(
          "C04",
          "C04.refused_leaves_unchanged",
          format!("{label}/changed-on-refusal"),
          format!("{label} returned an error but the document changed: {}", pre_model.diff(&post_model)),
        );
      }
    }
    if model_out != real_out || post_model.canonical() != expect.canonical() {
      // Describe the situation structurally for known-finding matching.
      let situation = match op {
        Op::InsertMethod { did, fragment, scope, .. } => {
          let id = format!("{did}#{fragment}");
          let dangling_same = scope
            .map(|i| pre_model.rel[i].iter().any(|e| matches!(e, MRef::Refer(s) if *s == id)))
            .unwrap_or(false);
          let referenced = pre_model
            .rel
            .iter()
            .any(|r| r.iter().any(|e| matches!(e, MRef::Refer(s) if *s == id)));
          let has_vm = pre_model.vm.iter().any(|v| vid(v) == id);
          if referenced && !has_vm {
            if dangling_same {
              "dangling-reference-in-same-relationship"
            } else {
              "dangling-reference-in-other-relationship"
            }
          } else {
            "other"
          }
        }
        _ => "other",
      };
      ctx::violation(
        "C04",
        "C04.transition_matches_model",
        format!("{label}/model={model_out}/real={real_out}/{situation}"),
        format!(
          "{op:?}: model outcome {model_out}, library outcome {real_out}; document vs model: {}",
          post_model.diff(&expect)
        ),
      );
    }
    self.check_document(doc_idx, &post_model, &label);
  }

  // ---------------------------------------------------------------------------------------------------------------
  // Storage-backed operations under faults (C09) — also legal members of C04 histories
  // ---------------------------------------------------------------------------------------------------------------
  fn storage_op(&mut self, op: &Op) {
    let doc_idx = match op {
      Op::Generate { doc, .. } | Op::Purge { doc, .. } => *doc,
      _ => unreachable!(),
    };
    let prop = "C09";
    let pre_model = self.docs[doc_idx].model();
    let pre_snap = self.snap();
    let doc_kind = self.docs[doc_idx].kind();
    // ---- fault mask over storage-call occurrences of this operation ----
    let mask: u32 = if self.faulty {
      // (purge_method makes up to five storage calls since it verifies before it claims a revert - get_key_id, delete,
      // delete_key_id, exists, insert_key_id -, generate_method up to three plus its undo)
      match ctx::weighted(&[3, 6, 3]) {
        0 => 0,
        1 => 1 << ctx::choose(6),
        _ => ctx::choose(64) as u32,
      }
    } else {
      0
    };
    // One faulted operation in four has DIRTY failures among its failures: `insert_key_id`, `delete_key_id` or `delete`
    // takes effect in the store and then reports an error (a lost acknowledgement; what `StrongholdStorage` did before
    // it learnt to roll back when its snapshot cannot be written). Other calls named by the bits fail cleanly.
    let dirty: u32 = if mask != 0 && ctx::choose(4) == 0 {
      if ctx::choose(2) == 0 {
        mask
      } else {
        mask & ctx::choose(64) as u32
      }
    } else {
      0
    };
    // ---- target classification (for coverage and signatures) ----
    let (target_kind, refs, target_method): (String, usize, Option<VerificationMethod>) = match op {
      Op::Purge { id, .. } => {
        let refs = pre_model
          .rel
          .iter()
          .filter(|r| r.iter().any(|e| matches!(e, MRef::Refer(s) if s == id)))
          .count();
        let in_vm = pre_model.vm.iter().any(|v| vid(v) == id);
        let in_rel = pre_model
          .rel
          .iter()
          .any(|r| r.iter().any(|e| matches!(e, MRef::Embed(v) if vid(v) == id)));
        let kind = if in_rel {
          "embedded"
        } else if in_vm {
          "general"
        } else if refs > 0 {
          "dangling-only"
        } else {
          "absent"
        };
        let m = self.docs[doc_idx].core().resolve_method(id.as_str(), None).cloned();
        (kind.to_owned(), refs, m)
      }
      Op::Generate { scope, fragment, .. } => {
        let kind = match fragment {
          None => "kid-fragment".to_owned(),
          Some(f) => {
            let id = format!("{}#{f}", self.owns[doc_idx]);
            let method_exists = pre_model.vm.iter().any(|v| vid(v) == id)
              || pre_model
                .rel
                .iter()
                .any(|r| r.iter().any(|e| matches!(e, MRef::Embed(v) if vid(v) == id)));
            let service_exists = pre_model.services.iter().any(|s| vid(s) == id);
            let dangling_same = scope
              .map(|i| pre_model.rel[i].iter().any(|e| matches!(e, MRef::Refer(s) if *s == id)))
              .unwrap_or(false);
            let dangling_any = pre_model
              .rel
              .iter()
              .any(|r| r.iter().any(|e| matches!(e, MRef::Refer(s) if *s == id)));
            if method_exists {
              "fragment-taken-by-method"
            } else if service_exists {
              "fragment-taken-by-service"
            } else if dangling_same {
              "dangling-reference-in-same-relationship"
            } else if dangling_any && scope.is_some() {
              "dangling-reference-in-other-relationship"
            } else if dangling_any {
              "dangling-reference-general-scope"
            } else {
              "fresh-fragment"
            }
            .to_owned()
          }
        };
        (kind, 0, None)
      }
      _ => unreachable!(),
    };
    let refs_class = match refs {
      0 => "refs0",
      1 => "refs1",
      _ => "refs2+",
    };

    // ---- bystander: an unrelated client of the same stores, running concurrently ----
    let with_bystander = self.bystander && ctx::chance(1, 2);
    let by_digest: Option<MethodDigest> = if with_bystander {
      self.bystander_n += 1;
      let m = harness_method("did:sim:bystander", &format!("b{}", self.bystander_n), 9);
      Some(MethodDigest::new(&m).expect("digest"))
    } else {
      None
    };
    let by_result: RefCell<Option<Result<String, String>>> = RefCell::new(None);

    // ---- execute under the executor ----
    let result: RefCell<Option<Result<String, JwkStorageDocumentError>>> = RefCell::new(None);
    let steps;
    {
      self.ctl.dirty.set(dirty);
      self.ctl.begin_op(mask);
      ks::set_hook_yields(true);
      let storage = &self.storage;
      let doc = &mut self.docs[doc_idx];
      let result_ref = &result;
      let op2 = op.clone();
      let mut ex = Exec::new();
      ex.spawn("op", async move {
        let r = match &op2 {
          Op::Generate { scope, fragment, .. } => doc.generate_method(storage, fragment.as_deref(), to_scope(*scope)).await,
          Op::Purge { id, .. } => doc
            .purge_method(storage, &DIDUrl::parse(id).unwrap())
            .await
            .map(|()| String::new()),
          _ => unreachable!(),
        };
        *result_ref.borrow_mut() = Some(r);
      });
      if let Some(d) = by_digest.clone() {
        let by_ref = &by_result;
        ex.spawn("bystander", async move {
          // through the inner stores: the bystander is not the target of injected failures
          let r = async {
            let out = storage
              .key_storage()
              .inner
              .generate(JwkMemStore::ED25519_KEY_TYPE, JwsAlgorithm::EdDSA)
              .await
              .map_err(|e| e.to_string())?;
            yield_now().await;
            storage
              .key_id_storage()
              .inner
              .insert_key_id(d, out.key_id.clone())
              .await
              .map_err(|e| e.to_string())?;
            Ok::<String, String>(out.key_id.as_str().to_owned())
          }
          .await;
          *by_ref.borrow_mut() = Some(r);
        });
      }
      let mut n = 0u64;
      loop {
        let runnable = ex.runnable();
        if runnable.is_empty() {
          if !ex.live().is_empty() {
            ctx::violation(
              prop,
              "C09.terminates",
              "storage-op/stuck",
              "storage-backed call pending although every storage future completed (nobody woken)",
            );
          }
          break;
        }
        n += 1;
        if n > 5000 {
          ctx::violation(prop, "C09.terminates", "storage-op/step-cap", "storage-backed call did not finish in 5000 steps");
          break;
        }
        let pick = runnable[ctx::choose(runnable.len())];
        ctx::sched("pick", pick as u64);
        ex.poll(pick);
      }
      steps = n;
      ks::set_hook_yields(false);
      self.ctl.end_op();
    }
    ctx::stat_n("steps", steps);
    let Some(result) = result.into_inner() else {
      return;
    };
    if let Some(d) = &by_digest {
      self.ctl.note_digest(d);
    }
    let by_key: Option<String> = match by_result.into_inner() {
      Some(Ok(k)) => Some(k),
      Some(Err(e)) => {
        ctx::violation(
          prop,
          "C09.bystander_untouched",
          "bystander/own-call-failed",
          format!("bystander's own un-faulted store calls failed: {e}"),
        );
        None
      }
      None => None,
    };
    let summary = self.ctl.call_summary();
    let failed = self.ctl.failed_kinds();
    let completions = self.ctl.completions.borrow().clone();
    let join_order = {
      let d = completions.iter().position(|c| *c == "delete");
      let k = completions.iter().position(|c| *c == "delete_key_id");
      match (d, k) {
        (Some(d), Some(k)) if d < k => "delete<delete_key_id",
        (Some(_), Some(_)) => "delete_key_id<delete",
        _ => "-",
      }
    };
    let op_name = match op {
      Op::Generate { scope, .. } => format!("generate_method[{}]", if scope.is_some() { "relationship" } else { "general" }),
      _ => "purge_method".to_owned(),
    };
    let outcome = match &result {
      Ok(_) => "Ok".to_owned(),
      Err(e) => format!("Err({})", err_kind(e)),
    };
    ctx::trace(format!(
      "op{} doc{doc_idx}({doc_kind}) {op:?} mask={mask:06b} dirty={dirty:06b} calls=[{summary}] join={join_order} bystander={} -> {outcome}",
      self.step, with_bystander
    ));
    ctx::cover(format!(
      "c09cell:{op_name}/{doc_kind}/{target_kind}/{refs_class}/[{summary}]/{join_order}/{outcome}"
    ));
    if !failed.is_empty() {
      ctx::mark_nontrivial();
    }
    match &result {
      Err(JwkStorageDocumentError::UndoOperationFailed { .. }) => ctx::stat("probe.undo_operation_failed"),
      Err(_) if !failed.is_empty() => ctx::stat("probe.rollback_after_fault"),
      _ => {}
    }

    // ---- oracle ----
    let post_model = self.docs[doc_idx].model();
    let post_snap = self.snap();
    // expected store state before the operation's own effect: pre + bystander delta
    let mut base = pre_snap.clone();
    if let (Some(k), Some(d)) = (&by_key, &by_digest) {
      base.keys.insert(k.clone());
      base.key_count += 1;
      base.key_ids.insert(hex(&d.pack()), k.clone());
      base.key_id_count += 1;
      // bystander entries must be intact
      if !post_snap.keys.contains(k) || post_snap.key_ids.get(&hex(&d.pack())) != Some(k) {
        ctx::violation(
          prop,
          "C09.bystander_untouched",
          format!("{op_name}/bystander-entry-lost"),
          format!("bystander's key {k} or its key id mapping disappeared during {op_name} [{summary}]"),
        );
      }
    }
    let sig_base = format!("{op_name}/{target_kind}/{refs_class}/fail{{{}}}", failed.join(","));
    match (op, &result) {
      // ---------------- generate ----------------
      (Op::Generate { scope, fragment, .. }, Ok(frag)) => {
        if let Some(f) = fragment {
          if f != frag {
            ctx::violation(prop, "C09.ok_complete", format!("{sig_base}/wrong-fragment"), format!("returned fragment {frag}, requested {f}"));
          }
        }
        let own = self.owns[doc_idx].clone();
        let id = format!("{own}#{frag}");
        self.generated.push((doc_idx, id.clone()));
        let method = self.docs[doc_idx]
          .core()
          .resolve_method(id.as_str(), Some(to_scope(*scope)))
          .cloned();
        match method {
          None => ctx::violation(
            prop,
            "C09.ok_complete",
            format!("{sig_base}/method-does-not-resolve"),
            format!("generate_method returned Ok({frag}) but {id} does not resolve in scope {}", scope_name(*scope)),
          ),
          Some(method) => {
            // document = pre + exactly this method in this scope
            let mut expect = pre_model.clone();
            let mj = serde_json::to_value(&method).unwrap();
            match scope {
              None => expect.vm.push(mj),
              Some(i) => expect.rel[*i].push(MRef::Embed(mj)),
            }
            if expect.canonical() != post_model.canonical() {
              ctx::violation(
                prop,
                "C09.ok_complete",
                format!("{sig_base}/document-not-pre-plus-method"),
                format!("after Ok: {}", post_model.diff(&expect)),
              );
            }
            let digest = MethodDigest::new(&method).expect("digest");
            let dh = hex(&digest.pack());
            match post_snap.key_ids.get(&dh) {
              None => ctx::violation(
                prop,
                "C09.ok_complete",
                format!("{sig_base}/key-id-not-recorded"),
                "generate_method returned Ok but no key id is recorded for the method digest",
              ),
              Some(k) => {
                if !post_snap.keys.contains(k) {
                  ctx::violation(
                    prop,
                    "C09.ok_complete",
                    format!("{sig_base}/key-missing"),
                    format!("key id {k} recorded but the key does not exist"),
                  );
                }
                let mut want = base.clone();
                want.keys.insert(k.clone());
                want.key_count += 1;
                want.key_ids.insert(dh.clone(), k.clone());
                want.key_id_count += 1;
                if want != post_snap {
                  ctx::violation(
                    prop,
                    "C09.ok_complete",
                    format!("{sig_base}/stores-not-pre-plus-one"),
                    format!("stores after Ok: {post_snap:?}, expected {want:?}"),
                  );
                }
                // signing with it works and verifies against the document
                let payload = b"sim-payload";
                // queried by full id: a bare fragment is ambiguous when a foreign-DID id shares it (documented)
                let jws = crate::core::exec::block_on(self.docs[doc_idx].create_jws(&self.storage, &id, payload));
                match jws {
                  Ok(jws) => {
                    let v = self.docs[doc_idx].core().verify_jws(
                      &jws,
                      None,
                      &EdDSAJwsVerifier::default(),
                      &JwsVerificationOptions::default(),
                    );
                    if v.is_err() {
                      ctx::violation(
                        prop,
                        "C09.ok_complete",
                        format!("{sig_base}/signature-does-not-verify"),
                        format!("JWS made with the generated method does not verify: {:?}", v.err().map(|e| e.to_string())),
                      );
                    }
                  }
                  Err(e) => ctx::violation(
                    prop,
                    "C09.ok_complete",
                    format!("{sig_base}/signing-fails"),
                    format!("create_jws with the generated method fails: {e}"),
                  ),
                }
              }
            }
          }
        }
      }
      (Op::Generate { .. }, Err(e)) => {
        let undo = matches!(e, JwkStorageDocumentError::UndoOperationFailed { .. });
        if post_model != pre_model {
          let what = if post_model.canonical() == pre_model.canonical() { "document-reordered" } else { "document-changed" };
          ctx::violation(
            prop,
            "C09.err_state_unchanged",
            format!("{sig_base}/{what}"),
            format!("generate_method failed ({}) but the document changed: {}", err_kind(e), post_model.diff(&pre_model)),
          );
        }
        if undo {
          // exactly one stray key is licensed - and, when a failure was dirty, one stray key id (the entry that
          // `insert_key_id` recorded before it reported its failure and that could not be removed again) -, nothing else
          let extra: Vec<&String> = post_snap.keys.difference(&base.keys).collect();
          let mut want = base.clone();
          if extra.len() == 1 {
            want.keys.insert(extra[0].clone());
            want.key_count += 1;
          }
          if dirty != 0 {
            let extra_ids: Vec<(&String, &String)> = post_snap.key_ids.iter().filter(|(d, _)| !base.key_ids.contains_key(*d)).collect();
            if extra_ids.len() == 1 {
              want.key_ids.insert(extra_ids[0].0.clone(), extra_ids[0].1.clone());
              want.key_id_count += 1;
            }
          }
          if want != post_snap {
            ctx::violation(
              prop,
              "C09.undo_failed_only_named_stray",
              format!("{sig_base}/more-than-the-named-stray"),
              format!("after UndoOperationFailed: {post_snap:?}, expected at most one stray key on top of {base:?}"),
            );
          }
        } else if post_snap != base {
          let what = if post_snap.key_count > base.key_count {
            "orphaned-key"
          } else if post_snap.key_id_count > base.key_id_count {
            "orphaned-key-id"
          } else {
            "stores-changed"
          };
          ctx::violation(
            prop,
            "C09.err_state_unchanged",
            format!("{sig_base}/{what}"),
            format!("generate_method failed ({}) [{summary}] but stores changed: {post_snap:?} vs {base:?}", err_kind(e)),
          );
        }
      }
      // ---------------- purge ----------------
      (Op::Purge { id, .. }, Ok(_)) => {
        let mut expect = pre_model.clone();
        let removed = expect.remove_method(id);
        if removed.is_none() {
          ctx::violation(
            prop,
            "C09.ok_complete",
            format!("{sig_base}/ok-without-method"),
            format!("purge_method({id}) returned Ok although no such method existed"),
          );
        }
        if expect.canonical() != post_model.canonical() {
          ctx::violation(
            prop,
            "C09.ok_complete",
            format!("{sig_base}/document-not-pre-minus-method"),
            format!("after Ok: {}", post_model.diff(&expect)),
          );
        }
        if let Some(m) = &target_method {
          let dh = hex(&MethodDigest::new(m).expect("digest").pack());
          let mut want = base.clone();
          if let Some(k) = want.key_ids.remove(&dh) {
            want.key_id_count -= 1;
            if want.keys.remove(&k) {
              want.key_count -= 1;
            }
          }
          if want != post_snap {
            ctx::violation(
              prop,
              "C09.ok_complete",
              format!("{sig_base}/stores-not-pre-minus-one"),
              format!("stores after Ok purge: {post_snap:?}, expected {want:?}"),
            );
          }
        }
      }
      (Op::Purge { id, .. }, Err(e)) => {
        let undo = matches!(e, JwkStorageDocumentError::UndoOperationFailed { .. });
        if undo {
          let mut removed = pre_model.clone();
          removed.remove_method(id);
          let doc_ok = post_model.canonical() == pre_model.canonical() || post_model.canonical() == removed.canonical();
          let mut allowed: Vec<StoreSnapshot> = vec![base.clone()];
          if let Some(m) = &target_method {
            let dh = hex(&MethodDigest::new(m).expect("digest").pack());
            if let Some(k) = base.key_ids.get(&dh).cloned() {
              let mut a = base.clone();
              a.keys.remove(&k);
              a.key_count -= 1;
              allowed.push(a.clone());
              let mut b = base.clone();
              b.key_ids.remove(&dh);
              b.key_id_count -= 1;
              allowed.push(b);
              if dirty != 0 {
                // both deletions took effect and both reported a failure: nothing is left to revert to
                let mut c = a.clone();
                c.key_ids.remove(&dh);
                c.key_id_count -= 1;
                allowed.push(c);
              }
            }
          }
          if !doc_ok || !allowed.contains(&post_snap) {
            ctx::violation(
              prop,
              "C09.undo_failed_only_named_stray",
              format!("{sig_base}/more-than-the-named-stray"),
              format!("after UndoOperationFailed: document {}, stores {post_snap:?}", post_model.diff(&pre_model)),
            );
          }
        } else {
          if post_model != pre_model {
            // classify what was lost
            let lost_refs = (0..5).any(|r| {
              pre_model.rel[r].iter().any(|e| matches!(e, MRef::Refer(s) if s == id))
                && !post_model.rel[r].iter().any(|e| matches!(e, MRef::Refer(s) if s == id))
            });
            let method_lost = self.docs[doc_idx].core().resolve_method(id.as_str(), None).is_none() && target_method.is_some();
            let what = if method_lost {
              "method-lost"
            } else if lost_refs {
              "references-lost"
            } else if post_model.canonical() == pre_model.canonical() {
              // same entries, different positions: observable through serialisation, equality and first-match queries
              "document-reordered"
            } else {
              "document-changed"
            };
            ctx::violation(
              prop,
              "C09.err_state_unchanged",
              format!("{sig_base}/{what}"),
              format!(
                "purge_method({id}) failed ({}) [{summary}] but the document changed: {}",
                err_kind(e),
                post_model.diff(&pre_model)
              ),
            );
          }
          if post_snap != base {
            ctx::violation(
              prop,
              "C09.err_state_unchanged",
              format!("{sig_base}/stores-changed"),
              format!("purge_method failed ({}) [{summary}] but stores changed: {post_snap:?} vs {base:?}", err_kind(e)),
            );
          }
        }
      }
      _ => {}
    }
    if let Some(k) = by_key {
      self.extra_key_ids.push(k);
    }
    // C04: storage-backed operations are members of the mutation history as well
    if result.is_err() && !matches!(result, Err(JwkStorageDocumentError::UndoOperationFailed { .. })) {
      if post_model != pre_model {
        ctx::violation(
          "C04",
          "C04.refused_leaves_unchanged",
          format!("{op_name}/changed-on-error/{target_kind}/{refs_class}"),
          format!("{op_name} returned an error but the document changed: {}", post_model.diff(&pre_model)),
        );
      }
    }
    self.check_document(doc_idx, &post_model, &op_name);
  }

  fn gen_op(&self) -> Op {
    let doc = ctx::choose(self.docs.len());
    let own = self.owns[doc].clone();
    let foreign = self.foreign[doc].clone();
    let frag = || self.frags[ctx::choose(self.frags.len())].to_owned();
    let any_did = || if ctx::chance(1, 4) { foreign.clone() } else { own.clone() };
    let scope = || -> Scope {
      if ctx::choose(2) == 0 {
        None
      } else {
        Some(ctx::choose(5))
      }
    };
    // existing method ids make purge/remove/attach hit something
    let model = self.docs[doc].model();
    let mut existing: Vec<String> = model.vm.iter().map(|v| vid(v).to_owned()).collect();
    for r in &model.rel {
      for e in r {
        existing.push(e.id().to_owned());
      }
    }
    existing.sort();
    existing.dedup();
    let generated_here: Vec<&String> = self
      .generated
      .iter()
      .filter(|(d, id)| *d == doc && existing.contains(id))
      .map(|(_, id)| id)
      .collect();
    let pick_plain = |bias_existing: bool| -> String {
      if bias_existing && !generated_here.is_empty() && ctx::chance(1, 2) {
        generated_here[ctx::choose(generated_here.len())].clone()
      } else if bias_existing && !existing.is_empty() && ctx::chance(3, 4) {
        existing[ctx::choose(existing.len())].clone()
      } else {
        format!("{}#{}", any_did(), frag())
      }
    };
    // purge / remove take a complete DID URL: one target in ten is the id of a method with a query or path added,
    // which is the id of NO method of the document
    let pick_id = |bias_existing: bool| -> String {
      let id = pick_plain(bias_existing);
      if ctx::chance(1, 10) {
        if let Some((did, frag)) = id.split_once('#') {
          ctx::stat("probe.target_id_with_path_or_query");
          return format!("{did}{}#{frag}", ["?versionId=1", "/keys"][ctx::choose(2)]);
        }
      }
      id
    };
    let w_storage = if self.prop == "C09" { 10 } else { 4 };
    match ctx::weighted(&[w_storage, w_storage, 4, 3, 4, 2, 2, 1]) {
      0 => Op::Generate {
        doc,
        scope: scope(),
        fragment: if ctx::chance(1, 5) { None } else { Some(frag()) },
      },
      1 => Op::Purge { doc, id: pick_id(true) },
      2 => Op::InsertMethod {
        doc,
        did: any_did(),
        fragment: frag(),
        scope: scope(),
      },
      3 => Op::RemoveMethod { doc, id: pick_id(true) },
      4 => {
        let q = if ctx::choose(2) == 0 { pick_plain(true) } else { frag() };
        Op::Attach {
          doc,
          query: q,
          rel: ctx::choose(5),
        }
      }
      5 => {
        let q = if ctx::choose(2) == 0 { pick_plain(true) } else { frag() };
        Op::Detach {
          doc,
          query: q,
          rel: ctx::choose(5),
        }
      }
      6 => Op::InsertService {
        doc,
        did: any_did(),
        fragment: frag(),
      },
      _ => Op::RemoveService {
        doc,
        id: format!("{}#{}", any_did(), frag()),
      },
    }
  }
}

// (the second fragment begins with the letters of the DID scheme: a fragment is whatever follows '#'; the fourth and
// fifth differ only in that one writes a character percent-encoded: different strings, different entries; the sixth
// begins with the DID scheme in ANOTHER letter case followed by a colon - a legal fragment, not a DID)
const FRAGS: [&str; 32] = [
  "a", "didcomm", "/k/1", "k-1", "k%2D1", "DID:k", "g", "h", "i", "j", "k", "l", "m", "n", "o", "p", "q", "r", "s", "t", "u", "v", "w", "x", "y", "z", "aa",
  "ab", "ac", "ad", "ae", "af",
];

impl Engine for StorEngine {
  fn name(&self) -> &'static str {
    "stor"
  }
  fn rule(&self, p: &str) -> String {
    format!(
      "One run = 1-2 documents (CoreDocument / IotaDocument; start state empty, built or deserialised, including dangling \
       own/foreign references, foreign-DID embedded methods, ids sharing a fragment under different DIDs) sharing one \
       Storage over the real in-memory stores behind fault-injecting wrappers, and a history of up to 12 operations \
       (generate_method, purge_method, insert/remove method, attach/detach, insert/remove service) over 2-5 fragments x \
       2 DIDs. For every storage-backed call the tape draws a fault mask over storage-call occurrences (clean failures; in one faulted \
       operation in four some failures of insert_key_id / delete_key_id / delete are DIRTY: the call takes effect and reports an error), \
       yields at every wrapper/hook point (so the two deletes under join! complete in either order) and an optional \
       concurrent bystander client. Armed property {p}. Non-trivial: at least one injected storage failure fired; \
       distinct = distinct hashes of (task picks, yields, fault positions). Coverage classes: op x document type x \
       target kind x #references x realised call/fault vector x join order x outcome."
    )
  }
  fn real_components(&self, _p: &str) -> Vec<&'static str> {
    vec![
      "identity_document::CoreDocument (mutators, queries, JSON round trip)",
      "identity_iota_core::IotaDocument + StateMetadataDocument pack/unpack",
      "identity_storage::JwkDocumentExt::{generate_method, purge_method, create_jws}, Storage, MethodDigest",
      "identity_storage::{JwkMemStore, KeyIdMemstore} behind FaultyJwk/FaultyKeyId wrappers",
      "identity_eddsa_verifier::EdDSAJwsVerifier, CoreDocument::verify_jws",
    ]
  }
  fn stub_components(&self, _p: &str) -> Vec<&'static str> {
    vec!["none (wrappers add clean and dirty failures, yields and recording around the real stores)"]
  }
  fn assumptions(&self, p: &str) -> Vec<String> {
    let mut v = vec![
      "storage failures are clean (an error is returned and the store is not altered) or, for insert_key_id / delete_key_id / delete, dirty (the store is altered and an error is returned: a lost acknowledgement). generate / insert never fail dirty (the caller gets no key id and cannot take the effect back: that is the store's own obligation, checked on StrongholdStorage in the thorough tier), and in an operation with dirty failures injected errors are of every kind except 'not found' (a store that answers 'not found' for an entry it holds is lying, not failing)".to_owned(),
      "after an error (other than a reported failed undo) the document must equal its pre-state exactly, including the order of entries ('observably unchanged'); after success only the set of entries is compared; IotaDocument metadata timestamps are not compared".to_owned(),
    ];
    if p == "C04" {
      v.push("fragment-only queries are judged exactly only when the fragment is unambiguous among the ids of the document; otherwise any candidate is admitted (documented 'unexpected behaviour' for ids under foreign DIDs)".to_owned());
      v.push("only generate_method/purge_method meet faults; plain mutators have no seam and run as fault-free reference-model conformance".to_owned());
    }
    v
  }
  fn required_probes(&self, p: &str, _tier: &str) -> Vec<String> {
    let mut v: Vec<String> = vec![
      "fault.storage.fail_clean.generate",
      "fault.storage.fail_clean.insert_key_id",
      "fault.storage.fail_clean.delete",
      "fault.storage.fail_clean.get_key_id",
      "fault.storage.fail_clean.delete_key_id",
      "fault.storage.fail_dirty.insert_key_id",
      "fault.storage.fail_dirty.delete",
      "fault.storage.fail_dirty.delete_key_id",
      "fault.storage.latency_yield",
      "probe.undo_operation_failed",
      "probe.rollback_after_fault",
      "probe.start.deserialised",
      "probe.start.built",
      "probe.start.empty",
      "probe.start.invalid_refused",
      "probe.doc.iota",
      "probe.doc.core",
    ]
    .into_iter()
    .map(str::to_owned)
    .collect();
    if p == "C09" {
      v.push("cover:c09cell>=40".to_owned());
    } else {
      v.push("cover:c04op>=12".to_owned());
    }
    v
  }

  fn run(&self, prop: &str, params: &Params) {
    let max_ops = params.get("max_ops").copied().unwrap_or(12) as usize;
    // ---- configuration (swarm) ----
    let n_docs = 1 + ctx::choose(2);
    // one run in fifty is a LONG history on documents with up to 32 methods
    let long = ctx::chance(1, 50);
    if long {
      ctx::stat("probe.long_history");
    }
    let n_frags = if long { 8 + ctx::choose(25) } else { 2 + ctx::choose(5) };
    let faulty = ctx::choose(4) != 0; // one quarter of the runs is the fault-free configuration
    let (yn, yd) = [(0u32, 1u32), (1, 6), (1, 2)][ctx::choose(3)];
    let bystander = ctx::choose(3) == 0;
    let n_ops = if long { 30 + ctx::choose(50) } else { 1 + ctx::choose(max_ops) };
    let keygen_seed = ((ctx::draw_u32() as u64) << 32) | ctx::draw_u32() as u64;
    let keygen = Rc::new(RefCell::new(KeyGen::new(keygen_seed)));
    // a key store may hand out the same key material again (deterministic derivation): two methods with the same
    // fragment and key then share a method digest, and insert_key_id fails GENUINELY with KeyIdAlreadyExists
    keygen.borrow_mut().repeat_secrets = ctx::choose(3) == 0;
    ks::install_hooks(keygen.clone(), yn, yd);
    ks::set_hook_yields(false);
    let ctl = Rc::new(FaultCtl::default());
    // one key store in eight leaves out the optional `alg` member of the JWKs it generates
    if ctx::chance(1, 8) {
      ctl.strip_alg.set(true);
      ctx::stat("probe.key_store_without_alg");
    }
    // one key store in six does not set `kid` on generated JWKs
    if ctx::chance(1, 6) {
      ctl.strip_kid.set(true);
      ctx::stat("probe.key_store_without_kid");
    }
    ctl.yield_rate.set((yn, yd));
    let storage: Stor = Storage::new(
      FaultyJwk {
        inner: JwkMemStore::new(),
        ctl: ctl.clone(),
      },
      FaultyKeyId {
        inner: KeyIdMemstore::new(),
        ctl: ctl.clone(),
      },
    );
    ctx::stat(if faulty { "config.faulty" } else { "config.fault_free" });

    // ---- documents ----
    let mut docs = Vec::new();
    let mut owns = Vec::new();
    let mut foreigns = Vec::new();
    let frags: Vec<&'static str> = FRAGS[..n_frags].to_vec();
    for i in 0..n_docs {
      let iota = ctx::choose(2) == 1;
      let (own, foreign) = if iota {
        (
          format!("did:iota:0x{}", format!("{:02x}", 0xa0 + i as u8).repeat(32)),
          format!("did:iota:smr:0x{}", "cd".repeat(32)),
        )
      } else {
        // the foreign DID is unrelated, or a look-alike that merely EXTENDS the document's own DID
        let own = format!("did:sim:own{i}");
        let foreign = if ctx::choose(3) == 0 {
          ctx::stat("probe.foreign_did_extends_own_did");
          format!("{own}7")
        } else {
          "did:sim:other".to_owned()
        };
        (own, foreign)
      };
      let start = ctx::choose(3);
      let model = match start {
        0 => ModelDoc::empty(&own),
        _ => gen_start_model(&own, &foreign, &frags),
      };
      // One start document in eight deliberately violates one id constraint (a service id equal to a method id, a
      // reference aliasing an embedded method, two embedded methods with one id). The library must refuse it; if it
      // accepts it, the start-state check below reports the breach ("any DID document the library accepts ... never
      // contains ...").
      let mut model = model;
      let mut corrupted = false;
      if start != 0 && ctx::choose(8) == 0 {
        let ids: Vec<String> = model
          .vm
          .iter()
          .map(|v| vid(v).to_owned())
          .chain(model.rel.iter().flat_map(|r| r.iter().filter_map(|e| match e {
            MRef::Embed(v) => Some(vid(v).to_owned()),
            _ => None,
          })))
          .collect();
        if !ids.is_empty() {
          let id = ids[ctx::choose(ids.len())].clone();
          let (did, frag) = id.split_once('#').unwrap_or((&own, "a"));
          match ctx::choose(3) {
            0 => model.services.push(harness_service(did, frag, 77)),
            1 => {
              // alias: a reference (in some relationship) to a method embedded in a relationship, or a second embed
              let embedded_in_rel = model.rel.iter().any(|r| r.iter().any(|e| matches!(e, MRef::Embed(v) if vid(v) == id)));
              let r = ctx::choose(5);
              if embedded_in_rel {
                model.rel[r].push(MRef::Refer(id.clone()));
              } else {
                model.rel[r].push(MRef::Embed(serde_json::to_value(harness_method(did, frag, 5)).unwrap()));
              }
            }
            _ => model.vm.push(serde_json::to_value(harness_method(did, frag, 6)).unwrap()),
          }
          corrupted = !model.id_invariant_breaches().is_empty();
          if corrupted {
            ctx::stat("probe.start.invalid_offered");
          }
        }
      }
      let core: Option<CoreDocument> = match start {
        0 => {
          ctx::stat("probe.start.empty");
          CoreDocument::builder(Default::default())
            .id(CoreDID::parse(&own).unwrap())
            .build()
            .ok()
        }
        1 => {
          ctx::stat("probe.start.deserialised");
          CoreDocument::from_json_value(model.to_json()).ok()
        }
        _ => {
          ctx::stat("probe.start.built");
          let mut b = CoreDocument::builder(Default::default()).id(CoreDID::parse(&own).unwrap());
          for v in &model.vm {
            b = b.verification_method(VerificationMethod::from_json_value(v.clone()).unwrap());
          }
          for (r, entries) in model.rel.iter().enumerate() {
            for e in entries {
              let mref: identity_verification::MethodRef = match e {
                MRef::Embed(v) => VerificationMethod::from_json_value(v.clone()).unwrap().into(),
                MRef::Refer(s) => DIDUrl::parse(s).unwrap().into(),
              };
              b = match r {
                0 => b.authentication(mref),
                1 => b.assertion_method(mref),
                2 => b.key_agreement(mref),
                3 => b.capability_delegation(mref),
                _ => b.capability_invocation(mref),
              };
            }
          }
          for s in &model.services {
            b = b.service(Service::from_json_value(s.clone()).unwrap());
          }
          b.build().ok()
        }
      };
      let core = match core {
        Some(c) => c,
        None => {
          // The library rejected the start document: correct for a deliberately invalid one; for one the generator
          // believes valid it is not a claim of the property ("any DID document the library accepts"), but it is
          // counted so that a broken generator is noticed.
          ctx::stat(if corrupted { "probe.start.invalid_refused" } else { "probe.start.rejected_by_library" });
          CoreDocument::builder(Default::default())
            .id(CoreDID::parse(&own).unwrap())
            .build()
            .expect("empty document builds")
        }
      };
      let doc = if iota {
        ctx::stat("probe.doc.iota");
        let _ = IotaDID::parse(&own).expect("iota did");
        AnyDoc::Iota(IotaDocument::from(core))
      } else {
        ctx::stat("probe.doc.core");
        AnyDoc::Core(core)
      };
      ctx::trace(format!("doc{i} {} start={} {}", doc.kind(), ["empty", "deserialised", "built"][start], doc.model().canonical()));
      docs.push(doc);
      owns.push(own);
      foreigns.push(foreign);
    }

    let mut run = Run {
      prop,
      docs,
      owns,
      foreign: foreigns,
      frags,
      storage,
      ctl,
      keygen,
      extra_key_ids: Vec::new(),
      faulty,
      bystander,
      bystander_n: 0,
      step: 0,
      generated: Vec::new(),
    };
    // start states must satisfy the invariants too
    for i in 0..run.docs.len() {
      let m = run.docs[i].model();
      run.check_document(i, &m, "start");
    }
    for step in 0..n_ops {
      run.step = step;
      let op = run.gen_op();
      match &op {
        Op::Generate { .. } | Op::Purge { .. } => {
          // A panic inside the storage-backed call is a crash of the caller: C09 demands "completes or returns an error".
          let r = ctx::catch(|| run.storage_op(&op));
          if let Err(p) = r {
            ctx::violation(
              "C09",
              "C09.no_crash",
              format!("{}/panic", if matches!(op, Op::Generate { .. }) { "generate_method" } else { "purge_method" }),
              format!("{op:?} panicked: {p}"),
            );
            break;
          }
        }
        _ => run.plain_op(&op),
      }
      if ctx::has_violation() {
        break;
      }
    }
    let total_faults = run.ctl.faults_fired.get();
    ctx::stat_n("faults_fired_total", total_faults);
    ks::uninstall_hooks();
    if prop == "C04" && !ctx::has_violation() && ctx::choose(8) == 0 {
      url_component_ids();
    }
    if prop == "C04" && !ctx::has_violation() && ctx::choose(8) == 0 {
      lookalike_reference_and_insert();
    }
    if prop == "C04" && !ctx::has_violation() && ctx::choose(12) == 0 {
      relative_url_without_fragment();
    }
    if prop == "C09" && !ctx::has_violation() && ctx::choose(12) == 0 {
      double_import_purge();
    }
    if prop == "C04" && !ctx::has_violation() && ctx::choose(16) == 0 {
      octet_before_delimiter_id();
    }
    if prop == "C04" && !ctx::has_violation() && ctx::choose(16) == 0 {
      id_with_blank_around();
    }
    if prop == "C04" && !ctx::has_violation() && ctx::choose(16) == 0 {
      custom_method_data_with_property();
    }
    if prop == "C04" && !ctx::has_violation() && ctx::choose(16) == 0 {
      property_named_like_a_member();
    }
  }
}

/// A method whose key material is custom method data (`blockchainAccountId`-style) AND that carries a further
/// property: in the flattened JSON form nothing tells the two apart, so the round trip may swap them.
fn custom_method_data_with_property() {
  let did = "did:sim:urlids";
  let j = serde_json::json!({"id": format!("{did}#c1"), "controller": did, "type": "EcdsaSecp256k1RecoveryMethod2020", "blockchainAccountId": "eip155:1:0xabc"});
  let Ok(mut m) = VerificationMethod::from_json_value(j) else { return };
  m.properties_mut().insert(["note", "aaa", "zzz"][ctx::choose(3)].to_owned(), Value::from("x"));
  let mut doc = CoreDocument::builder(Default::default()).id(CoreDID::parse(did).unwrap()).build().expect("empty doc");
  if doc.insert_method(m, to_scope(None)).is_err() {
    return;
  }
  ctx::stat("probe.custom_method_data_with_property");
  let r = doc
    .to_json()
    .map_err(|e| e.to_string())
    .and_then(|j| CoreDocument::from_json(&j).map_err(|e| format!("own JSON rejected: {e}")))
    .and_then(|back| if back == doc { Ok(()) } else { Err("JSON round trip yields a different document".to_owned()) });
  if let Err(e) = r {
    ctx::violation("C04", "C04.round_trip", "custom-method-data-with-additional-property", format!("method with custom method data and one more property: {e}"));
  }
}

/// Custom properties are set through unchecked accessors. A property that carries the NAME of one of the entry's own
/// members (a service property `type`, a method property `publicKeyMultibase`, a document property `service`) is
/// accepted by the checked mutators, and the document then serialises with two members of one name.
fn property_named_like_a_member() {
  let did = "did:sim:urlids";
  let mut doc = CoreDocument::builder(Default::default()).id(CoreDID::parse(did).unwrap()).build().expect("empty doc");
  let what = match ctx::choose(2) {
    0 => {
      let Ok(mut svc) = Service::from_json_value(serde_json::json!({"id": format!("{did}#s1"), "type": "SimService", "serviceEndpoint": "https://sim.example/s1"})) else { return };
      svc.properties_mut().insert(["type", "id", "serviceEndpoint"][ctx::choose(3)].to_owned(), Value::from("x"));
      if doc.insert_service(svc).is_err() {
        return;
      }
      "service"
    }
    _ => {
      let mut m = harness_method(did, "k1", 0);
      m.properties_mut().insert(["publicKeyMultibase", "controller", "type"][ctx::choose(3)].to_owned(), Value::from("zQmFoo"));
      if doc.insert_method(m, to_scope(None)).is_err() {
        return;
      }
      "method"
    }
  };
  ctx::stat("probe.property_named_like_a_member");
  let r = doc
    .to_json()
    .map_err(|e| e.to_string())
    .and_then(|j| CoreDocument::from_json(&j).map_err(|e| format!("own JSON rejected: {e}")))
    .and_then(|back| if back == doc { Ok(()) } else { Err("JSON round trip yields a different document".to_owned()) });
  if let Err(e) = r {
    ctx::violation("C04", "C04.round_trip", "property-named-like-a-member-of-the-entry", format!("{what} with a custom property named like one of its own members: {e}"));
  }
}

/// A document read from JSON in which a relationship refers to `did?versionId=1#k2` (a look-alike of, but not the
/// same id as, the method `did#k2` embedded in another relationship). Whatever lookups make of the look-alike, the
/// checked mutators must not let a second method with the id `did#k2` in.
fn lookalike_reference_and_insert() {
  let did = "did:sim:urlids";
  let embedded = serde_json::to_value(harness_method(did, "k2", 2)).unwrap();
  let part = ["?versionId=1", "/keys"][ctx::choose(2)];
  let (r1, r2) = [("authentication", "assertionMethod"), ("assertionMethod", "authentication"), ("keyAgreement", "capabilityInvocation")][ctx::choose(3)];
  let j = serde_json::json!({"id": did, r1: [format!("{did}{part}#k2")], r2: [embedded]});
  let Ok(mut doc) = CoreDocument::from_json_value(j) else { return };
  ctx::stat("probe.lookalike_reference_start_document");
  let scope: Scope = if ctx::choose(2) == 0 { None } else { Some(ctx::choose(5)) };
  let accepted = doc.insert_method(harness_method(did, "k2", 3), to_scope(scope)).is_ok();
  let mut ids: Vec<String> = doc.methods(None).iter().map(|m| m.id().to_string()).collect();
  ids.sort();
  let dup = ids.windows(2).any(|w| w[0] == w[1]);
  let rt = doc
    .to_json()
    .map_err(|e| e.to_string())
    .and_then(|j| CoreDocument::from_json(&j).map_err(|e| format!("own JSON rejected: {e}")));
  if dup || rt.is_err() {
    ctx::violation(
      "C04",
      "C04.id_uniqueness",
      "lookalike-reference/two-embedded-methods-share-id",
      format!(
        "insert_method({did}#k2) -> {} on a document with {r1}: [\"{did}{part}#k2\"] and {did}#k2 embedded in {r2}: embedded ids {ids:?}, round trip {:?}",
        if accepted { "Ok" } else { "Err" },
        rt.err()
      ),
    );
  }
}

/// A method id built with the library's own validating setters whose path or query ENDS in a percent-encoded octet
/// (`did:..?versionId=%41#k1`, `did:../my%20files%2F#k1`): legal DID URL syntax, accepted by `insert_method`. The
/// document has to survive its own JSON form.
fn octet_before_delimiter_id() {
  let did = "did:sim:pct";
  let mut doc = CoreDocument::builder(Default::default()).id(CoreDID::parse(did).unwrap()).build().expect("empty doc");
  let Ok(mut u) = DIDUrl::parse(format!("{did}#k1")) else { return };
  let set = match ctx::choose(2) {
    0 => u.set_query(Some("versionId=%41")),
    _ => u.set_path(Some("/my%20files%2F")),
  };
  if set.is_err() {
    return;
  }
  let mid = u.to_string();
  let mut m = harness_method(did, "k1", 9);
  if m.set_id(u).is_err() {
    return;
  }
  let scope: Scope = if ctx::choose(2) == 0 { None } else { Some(ctx::choose(5)) };
  if doc.insert_method(m, to_scope(scope)).is_err() {
    ctx::stat("observation.octet_before_delimiter_id_refused");
    return;
  }
  ctx::stat("probe.method_id_with_octet_before_delimiter");
  ctx::sched("pctid", mid.len() as u64);
  let r = doc
    .to_json()
    .map_err(|e| format!("to_json failed: {e}"))
    .and_then(|j| CoreDocument::from_json(&j).map_err(|e| format!("own JSON rejected: {e}")))
    .and_then(|back| if back == doc { Ok(()) } else { Err("JSON round trip yields a different document".to_owned()) });
  if let Err(e) = r {
    ctx::violation(
      "C04",
      "C04.round_trip",
      "method-id-with-percent-octet-before-delimiter/does-not-survive-json",
      format!("document with method id {mid} (built with the validating setters, accepted by insert_method): {e}"),
    );
  }
}

/// A document written elsewhere in which one identifier (document id, method id, a reference, a service id) has a
/// blank, tab, line feed or control character before or behind it. The library may refuse it; a document it ACCEPTS has
/// to survive its own JSON form and its entries have to be found by their full ids.
fn id_with_blank_around() {
  let did = "did:sim:ws";
  let blank = [" ", "\t", "\n", "\u{1}", "  "][ctx::choose(5)];
  let before = ctx::choose(3) != 0;
  let place = ctx::choose(4);
  let deco = |s: String, here: bool| -> String {
    if !here {
      s
    } else if before {
      format!("{blank}{s}")
    } else {
      format!("{s}{blank}")
    }
  };
  let mut method = serde_json::to_value(harness_method(did, "k1", 5)).unwrap();
  method["id"] = deco(format!("{did}#k1"), place == 1).into();
  let j = serde_json::json!({
    "id": deco(did.to_owned(), place == 0),
    "verificationMethod": [method],
    "authentication": [deco(format!("{did}#k1"), place == 2)],
    "service": [{"id": deco(format!("{did}#s1"), place == 3), "type": "SimService", "serviceEndpoint": "https://sim.example/s1"}],
  });
  ctx::stat("probe.id_with_blank_around");
  let Ok(doc) = CoreDocument::from_json_value(j) else {
    ctx::stat("observation.id_with_blank_around_refused");
    return;
  };
  ctx::stat("probe.id_with_blank_around_accepted");
  ctx::sched("wsid", (place * 16 + blank.len() * 2 + before as usize) as u64);
  let where_ = ["document id", "method id", "method reference", "service id"][place];
  let r = doc
    .to_json()
    .map_err(|e| format!("to_json failed: {e}"))
    .and_then(|j| CoreDocument::from_json(&j).map_err(|e| format!("own JSON rejected: {e}")))
    .and_then(|back| if back == doc { Ok(()) } else { Err("JSON round trip yields a different document".to_owned()) })
    .and_then(|()| {
      for m in doc.methods(None) {
        let id = m.id().to_string();
        match doc.resolve_method(id.as_str(), None) {
          Some(found) if found.id() == m.id() => {}
          _ => return Err(format!("resolve_method({id:?}) does not return the method with that id")),
        }
      }
      for s in doc.service().iter() {
        let id = s.id().to_string();
        match doc.resolve_service(id.as_str()) {
          Some(found) if found.id() == s.id() => {}
          _ => return Err(format!("resolve_service({id:?}) does not return the service with that id")),
        }
      }
      Ok(())
    });
  if let Err(e) = r {
    ctx::violation(
      "C04",
      "C04.round_trip",
      "accepted-id-with-blank-around/does-not-survive-json-or-lookup",
      format!("document accepted with a {} {} its {where_}: {e}", blank.escape_debug(), if before { "before" } else { "behind" }),
    );
  }
}

/// One private key imported twice (`insert` + `insert_method` + `insert_key_id`, as an application that brings its own
/// keys does), under two method ids. Purging one of the methods completes: that method, ITS key (key id) and ITS key-id
/// entry are gone, the other method keeps working.
fn double_import_purge() {
  use crate::core::exec::block_on;
  let did = "did:sim:imports";
  let storage: Storage<JwkMemStore, KeyIdMemstore> = Storage::new(JwkMemStore::new(), KeyIdMemstore::new());
  let mut doc = CoreDocument::builder(Default::default()).id(CoreDID::parse(did).unwrap()).build().expect("empty doc");
  let seed = ctx::bytes(32);
  let mut seed32 = [0u8; 32];
  seed32.copy_from_slice(&seed);
  let sk = crypto::signatures::ed25519::SecretKey::from_bytes(&seed32);
  let x = ks::b64(sk.public_key().as_ref());
  let private: identity_jose::jwk::Jwk =
    serde_json::from_value(serde_json::json!({"kty":"OKP","crv":"Ed25519","alg":"EdDSA","x": x, "d": ks::b64(&seed32)})).unwrap();
  let public: identity_jose::jwk::Jwk = serde_json::from_value(serde_json::json!({"kty":"OKP","crv":"Ed25519","alg":"EdDSA","x": x})).unwrap();
  let mut imported: Vec<(String, KeyId, MethodDigest)> = Vec::new();
  for frag in ["imp1", "imp2"] {
    let Ok(key_id) = block_on(storage.key_storage().insert(private.clone())) else { return };
    let Ok(method) = VerificationMethod::new_from_jwk(CoreDID::parse(did).unwrap(), public.clone(), Some(frag)) else { return };
    let Ok(digest) = MethodDigest::new(&method) else { return };
    let scope: Scope = if ctx::choose(2) == 0 { None } else { Some(ctx::choose(5)) };
    if doc.insert_method(method, to_scope(scope)).is_err() {
      return;
    }
    if block_on(storage.key_id_storage().insert_key_id(digest.clone(), key_id.clone())).is_err() {
      return;
    }
    imported.push((frag.to_owned(), key_id, digest));
  }
  ctx::stat("probe.one_key_imported_under_two_method_ids");
  let which = ctx::choose(2);
  ctx::sched("double-import", which as u64);
  let (gone, kept) = (&imported[which], &imported[1 - which]);
  let id = DIDUrl::parse(format!("{did}#{}", gone.0)).unwrap();
  match block_on(doc.purge_method(&storage, &id)) {
    Err(e) => ctx::violation("C09", "C09.ok_complete", "double-import/purge-fails", format!("purge_method of #{} failed without any storage fault: {e}", gone.0)),
    Ok(()) => {
      let key_left = block_on(storage.key_storage().exists(&gone.1)).unwrap_or(true);
      let key_id_left = block_on(storage.key_id_storage().get_key_id(&gone.2)).is_ok();
      if doc.resolve_method(gone.0.as_str(), None).is_some() || key_left || key_id_left {
        ctx::violation(
          "C09",
          "C09.ok_complete",
          "double-import/purged-method-leaves-key-behind",
          format!("purge_method(#{}) returned Ok but its key exists: {key_left}, its key id is recorded: {key_id_left}", gone.0),
        );
      }
      let other_key = block_on(storage.key_storage().exists(&kept.1)).unwrap_or(false);
      let other_key_id = block_on(storage.key_id_storage().get_key_id(&kept.2)).map(|k| k == kept.1).unwrap_or(false);
      let signs = block_on(doc.create_jws(&storage, kept.0.as_str(), b"still here", &JwsSignatureOptions::default())).is_ok();
      if !other_key || !other_key_id || !signs {
        ctx::violation(
          "C09",
          "C09.ok_complete",
          "double-import/other-method-damaged",
          format!("after purging #{} the method #{} has key: {other_key}, key id: {other_key_id}, signs: {signs}", gone.0, kept.0),
        );
      }
    }
  }
}

/// A query handed over as the relative part of a DID URL that has a path and / or a query but NO fragment names no
/// entry: entries are found by fragment. The document holds a method and a service whose FRAGMENT spells exactly that
/// path / query text (`#/keys?version=1`; '/' and '?' are fragment characters), which a lookup that renders the relative
/// URL to text and reads the text as a bare fragment would find.
fn relative_url_without_fragment() {
  let did = "did:sim:relurl";
  let mut doc = CoreDocument::builder(Default::default()).id(CoreDID::parse(did).unwrap()).build().expect("empty doc");
  let (path, query): (Option<&str>, Option<&str>) = [(Some("/keys"), Some("version=1")), (Some("/k/1"), None), (None, Some("service=files"))][ctx::choose(3)];
  let text = format!("{}{}", path.unwrap_or(""), query.map(|q| format!("?{q}")).unwrap_or_default());
  let mut m = harness_method(did, "placeholder", 4);
  let Ok(mid) = DIDUrl::parse(format!("{did}#{text}")) else { return };
  if m.set_id(mid.clone()).is_err() {
    return;
  }
  let scope: Scope = if ctx::choose(2) == 0 { None } else { Some(ctx::choose(5)) };
  if doc.insert_method(m, to_scope(scope)).is_err() {
    return;
  }
  let with_service = Service::from_json_value(serde_json::json!({"id": format!("{did}#{text}"), "type": "SimService", "serviceEndpoint": "https://sim.example/rel"}))
    .ok()
    .map(|s| doc.insert_service(s).is_ok())
    .unwrap_or(false);
  // the relative URL: built member by member, no fragment
  let Ok(full) = DIDUrl::parse(format!("{did}{text}")) else { return };
  let rel = full.url();
  if rel.fragment().is_some() || rel.to_string() != text {
    return;
  }
  ctx::stat("probe.relative_url_without_fragment");
  ctx::sched("relurl", ctx::choose(3) as u64);
  let mut scopes: Vec<Option<Scope>> = vec![None, Some(None)];
  scopes.extend((0..5).map(|r| Some(Some(r))));
  for sc in scopes {
    if let Some(found) = doc.resolve_method(rel, sc.map(to_scope)) {
      ctx::violation(
        "C04",
        "C04.resolve_method_matches_model",
        "relative-url-without-fragment/resolves-a-method",
        format!("resolve_method(relative URL {text:?} without fragment, {:?}) returned {}", sc.map(scope_name), found.id()),
      );
      break;
    }
  }
  if with_service {
    if let Some(found) = doc.resolve_service(rel) {
      ctx::violation(
        "C04",
        "C04.resolve_service_matches_model",
        "relative-url-without-fragment/resolves-a-service",
        format!("resolve_service(relative URL {text:?} without fragment) returned {}", found.id()),
      );
    }
  }
  // the same text handed over as a string IS a fragment query (documented: anything that is not a DID URL is read as
  // a fragment) and finds the method
  if doc.resolve_method(format!("#{text}").as_str(), None).map(|f| f.id() != &mid).unwrap_or(true) {
    ctx::violation(
      "C04",
      "C04.resolve_method_matches_model",
      "relative-url-without-fragment/fragment-text-not-found",
      format!("resolve_method(\"#{text}\") does not find the method {mid}"),
    );
  }
}

/// Method and service ids are DID URLs: besides the fragment they may carry a path or a query
/// (`did:..?versionId=2#k1`, `did:../registry#s1`). A document that accepted such entries must still round-trip
/// through its JSON form, resolve them by their full id and give them back on removal. (Kept apart from the main
/// history: queries match on DID and fragment only, so such ids are look-alikes of plain ones by design.)
fn url_component_ids() {
  let did = "did:sim:urlids";
  let mut doc = CoreDocument::builder(Default::default()).id(CoreDID::parse(did).unwrap()).build().expect("empty doc");
  let empty = doc.clone();
  let part = ["?versionId=2", "/keys", "/a/b?x=1", "??a=1", "?a??b"][ctx::choose(5)];
  let mut mid = format!("{did}{part}#k1");
  let mut m = harness_method(did, "k1", 9);
  let Ok(mut url) = DIDUrl::parse(&mid) else { return };
  if part.starts_with("??") {
    // a query that itself begins with '?' (legal: '?' is a query character), set through the setter, which takes the
    // query with its delimiter; the id is what the URL then prints
    let Ok(mut u) = DIDUrl::parse(format!("{did}#k1")) else { return };
    if u.set_query(Some(part)).is_err() {
      return;
    }
    mid = u.to_string();
    url = u;
    ctx::stat("probe.query_beginning_with_question_mark");
  }
  if m.set_id(url.clone()).is_err() {
    return;
  }
  let scope: Scope = if ctx::choose(2) == 0 { None } else { Some(ctx::choose(5)) };
  if doc.insert_method(m, to_scope(scope)).is_err() {
    ctx::stat("observation.url_component_id_refused");
    return;
  }
  ctx::stat("probe.url_component_ids");
  ctx::sched("urlids", ctx::choose(1) as u64);
  let check_rt = |d: &CoreDocument, what: &str| {
    let r = d
      .to_json()
      .map_err(|e| format!("to_json failed: {e}"))
      .and_then(|j| CoreDocument::from_json(&j).map_err(|e| format!("own JSON rejected: {e}")))
      .and_then(|back| if &back == d { Ok(()) } else { Err("JSON round trip yields a different document".to_owned()) });
    if let Err(e) = r {
      ctx::violation("C04", "C04.round_trip", format!("url-component-ids/{what}"), format!("document with {what} id {mid}: {e}"));
    }
  };
  check_rt(&doc, "method");
  match doc.resolve_method(mid.as_str(), None) {
    Some(found) if found.id().to_string() == mid => {}
    other => ctx::violation(
      "C04",
      "C04.resolve_method_matches_model",
      "url-component-ids/full-id-query",
      format!("resolve_method({mid}) returned {:?}", other.map(|m| m.id().to_string())),
    ),
  }
  let sid = format!("{did}{}#s1", ["/registry", "?service=files"][ctx::choose(2)]);
  if let Ok(svc) = Service::from_json_value(serde_json::json!({"id": sid, "type": "SimService", "serviceEndpoint": "https://sim.example/s1"})) {
    if doc.insert_service(svc).is_ok() {
      check_rt(&doc, "service");
      let _ = doc.remove_service(&DIDUrl::parse(&sid).unwrap());
    }
  }
  match doc.remove_method(&url) {
    Some(removed) if removed.id().to_string() == mid => {
      if doc != empty {
        ctx::violation("C04", "C04.transition_matches_model", "url-component-ids/remove-leaves-residue", "document after insert + remove differs from the empty document");
      }
    }
    other => ctx::violation(
      "C04",
      "C04.transition_matches_model",
      "url-component-ids/remove-by-full-id",
      format!("remove_method({mid}) returned {:?}", other.map(|m| m.id().to_string())),
    ),
  }
}

#[allow(dead_code)]
fn _unused(_: BTreeSet<u8>, _: KeyId) {}
